(* Handles (stamp, name, arc id), the generated trait methods as a small IR with an interpreter, and histories of
   new / clone / drop / rename operations.  Definitions first (executable), proofs below. *)
From Coq Require Import List NArith Bool Arith Lia String.
From IT Require Import Debut.Debut Debut.DebutThm.
Import ListNotations.
Open Scope N_scope.

Record handle := { h_stamp : N; h_name : string; h_arc : nat }.

Inductive side := Self | Other.
Inductive field := FDebut | FName.
Inductive operand := Op (s : side) (f : field).

(* recognised bodies of eq / partial_cmp / cmp *)
Inductive cmp_body :=
  | CEq (a b : operand)            (* *a == *b *)
  | CNe (a b : operand)            (* *a != *b *)
  | CCmp (recv arg : operand)      (* recv.cmp(&arg) *)
  | CPartial (recv arg : operand)  (* recv.partial_cmp(&arg) *)
  | CSomeCmp (recv arg : operand)  (* Some(recv.cmp(&arg)) *)
  | CUnknown.

Inductive count_body := CntStrong (f : field) | CntWeak (f : field) | CntUnknown.

Record cmp_ir := {
  c_eq : cmp_body; c_partial : cmp_body; c_cmp : cmp_body;
  c_eq_marker : bool;        (* `impl Eq for Live {}` present *)
  c_count : count_body;      (* body of inter_get_count *)
  c_clone_derived : bool;    (* #[derive(Clone)] on the live struct and field debut : Arc<SystemTime> *)
  c_arc_fresh : bool         (* the constructor wraps the stamp with Arc::new exactly once *)
}.

Inductive fv := FN (n : N) | FS (s : string).
Definition fget (o : operand) (me other : handle) : fv :=
  let h := match o with Op Self _ => me | Op Other _ => other end in
  match o with Op _ FDebut => FN (h_stamp h) | Op _ FName => FS (h_name h) end.

Definition fv_compare (a b : fv) : option comparison :=
  match a, b with
  | FN x, FN y => Some (N.compare x y)
  | FS x, FS y => Some (String.compare x y)
  | _, _ => None
  end.
Definition is_eq (c : comparison) : bool := match c with Eq => true | _ => false end.

(* a.eq(b) *)
Definition run_eq (ir : cmp_ir) (me other : handle) : option bool :=
  match c_eq ir with
  | CEq a b => option_map is_eq (fv_compare (fget a me other) (fget b me other))
  | CNe a b => option_map (fun c => negb (is_eq c)) (fv_compare (fget a me other) (fget b me other))
  | _ => None
  end.
(* a.cmp(b) *)
Definition run_cmp (ir : cmp_ir) (me other : handle) : option comparison :=
  match c_cmp ir with
  | CCmp r a => fv_compare (fget r me other) (fget a me other)
  | _ => None
  end.
(* a.partial_cmp(b) *)
Definition run_partial (ir : cmp_ir) (me other : handle) : option (option comparison) :=
  match c_partial ir with
  | CPartial r a | CSomeCmp r a => option_map Some (fv_compare (fget r me other) (fget a me other))
  | _ => None
  end.
(* a < b : the provided method of PartialOrd *)
Definition run_lt (ir : cmp_ir) (me other : handle) : option bool :=
  option_map (fun o => match o with Some Lt => true | _ => false end) (run_partial ir me other).

Definition wf_cmp (ir : cmp_ir) : bool :=
  match c_eq ir with CEq (Op Self FDebut) (Op Other FDebut) | CEq (Op Other FDebut) (Op Self FDebut) => true | _ => false end
  && match c_partial ir with CPartial (Op Other FDebut) (Op Self FDebut) | CSomeCmp (Op Other FDebut) (Op Self FDebut) => true | _ => false end
  && match c_cmp ir with CCmp (Op Other FDebut) (Op Self FDebut) => true | _ => false end
  && c_eq_marker ir
  && match c_count ir with CntStrong FDebut => true | _ => false end
  && c_clone_derived ir && c_arc_fresh ir.

Definition cmp_ir_canonical : cmp_ir :=
  {| c_eq := CEq (Op Self FDebut) (Op Other FDebut); c_partial := CPartial (Op Other FDebut) (Op Self FDebut);
     c_cmp := CCmp (Op Other FDebut) (Op Self FDebut); c_eq_marker := true; c_count := CntStrong FDebut;
     c_clone_derived := true; c_arc_fresh := true |}.

(* ---------- histories ---------- *)
Inductive hop := HNew | HClone (i : nat) | HDrop (i : nat) | HRename (i : nat) (s : string).

Record world := {
  w_live : list handle;        (* live handles, newest first *)
  w_strong : nat -> nat;       (* strong count of every Arc ever created *)
  w_narcs : nat;               (* number of constructor calls that returned *)
  w_last : N; w_pos : nat      (* LAST and the position in the stream of clock readings *)
}.

Fixpoint remove_nth {A} (i : nat) (l : list A) : list A :=
  match l, i with [] , _ => [] | _ :: r, O => r | a :: r, S j => a :: remove_nth j r end.
Fixpoint update_nth {A} (i : nat) (f : A -> A) (l : list A) : list A :=
  match l, i with [] , _ => [] | a :: r, O => f a :: r | a :: r, S j => a :: update_nth j f r end.

Definition bump_arc (f : nat -> nat) (a : nat) (g : nat -> nat) : nat -> nat := fun x => if Nat.eqb x a then g (f x) else f x.

Section World.
Variables (dir : debut_ir) (fuel : nat) (clock : nat -> N).

Definition wstep (w : world) (o : hop) : world :=
  match o with
  | HNew =>
      match run_full dir fuel clock (w_pos w) (w_last w) with
      | None => w    (* the constructor has not returned *)
      | Some s => {| w_live := {| h_stamp := val (d_ret dir) s; h_name := EmptyString; h_arc := w_narcs w |} :: w_live w;
                     w_strong := bump_arc (w_strong w) (w_narcs w) (fun _ => 1%nat); w_narcs := S (w_narcs w);
                     w_last := next_last dir s; w_pos := s_pos s |}
      end
  | HClone i =>
      match nth_error (w_live w) i with
      | None => w
      | Some h => {| w_live := h :: w_live w; w_strong := bump_arc (w_strong w) (h_arc h) S; w_narcs := w_narcs w; w_last := w_last w; w_pos := w_pos w |}
      end
  | HDrop i =>
      match nth_error (w_live w) i with
      | None => w
      | Some h => {| w_live := remove_nth i (w_live w); w_strong := bump_arc (w_strong w) (h_arc h) pred; w_narcs := w_narcs w; w_last := w_last w; w_pos := w_pos w |}
      end
  | HRename i s =>
      {| w_live := update_nth i (fun h => {| h_stamp := h_stamp h; h_name := s; h_arc := h_arc h |}) (w_live w);
         w_strong := w_strong w; w_narcs := w_narcs w; w_last := w_last w; w_pos := w_pos w |}
  end.

Definition w0 (last : N) (pos : nat) : world := {| w_live := []; w_strong := fun _ => O; w_narcs := O; w_last := last; w_pos := pos |}.
Definition wrun (w : world) (ops : list hop) : world := fold_left wstep ops w.
End World.

(* inter_get_count *)
Definition run_count (ir : cmp_ir) (w : world) (h : handle) : option nat :=
  match c_count ir with CntStrong FDebut => Some (w_strong w (h_arc h)) | _ => None end.

Definition clones_of (h : handle) (l : list handle) : nat := List.length (filter (fun x => Nat.eqb (h_arc x) (h_arc h)) l).

(* ================================= proofs ================================= *)

Lemma is_eq_compare : forall x y, is_eq (x ?= y) = (x =? y).
Proof. intros x y. destruct (N.compare_spec x y); destruct (N.eqb_spec x y); simpl; auto; lia. Qed.

Theorem cmp_agree : forall ir, wf_cmp ir = true -> forall a b,
  run_eq ir a b = Some (h_stamp a =? h_stamp b)
  /\ run_cmp ir a b = Some (N.compare (h_stamp b) (h_stamp a))
  /\ run_partial ir a b = Some (Some (N.compare (h_stamp b) (h_stamp a)))
  /\ run_lt ir a b = Some (h_stamp b <? h_stamp a).
Proof.
  intros ir H a b. unfold wf_cmp in H.
  repeat (apply andb_prop in H; destruct H as [H ?]).
  unfold run_lt, run_eq, run_cmp, run_partial.
  destruct (c_eq ir) as [[[] []] [[] []]| | | | |]; try discriminate;
  destruct (c_partial ir) as [| | |[[] []] [[] []]|[[] []] [[] []]|]; try discriminate;
  destruct (c_cmp ir) as [| |[[] []] [[] []]| | |]; try discriminate; simpl;
  rewrite ?is_eq_compare; rewrite ?(N.eqb_sym (h_stamp b) (h_stamp a)); unfold N.ltb; repeat split; reflexivity.
Qed.

Definition rename (h : handle) (s : string) : handle := {| h_stamp := h_stamp h; h_name := s; h_arc := h_arc h |}.

Theorem cmp_name_irrelevant : forall ir, wf_cmp ir = true -> forall a b s1 s2,
  run_eq ir (rename a s1) (rename b s2) = run_eq ir a b /\ run_cmp ir (rename a s1) (rename b s2) = run_cmp ir a b
  /\ run_partial ir (rename a s1) (rename b s2) = run_partial ir a b /\ run_lt ir (rename a s1) (rename b s2) = run_lt ir a b.
Proof.
  intros ir H a b s1 s2.
  destruct (cmp_agree ir H a b) as (E1 & E2 & E3 & E4).
  destruct (cmp_agree ir H (rename a s1) (rename b s2)) as (F1 & F2 & F3 & F4).
  rewrite E1, E2, E3, E4, F1, F2, F3, F4. simpl. auto.
Qed.

(* == is an equivalence, and cmp a total order consistent with it (what `impl Eq` / `impl Ord` promise) *)
Theorem cmp_lawful : forall ir, wf_cmp ir = true -> forall a b c,
  run_eq ir a a = Some true
  /\ run_eq ir a b = run_eq ir b a
  /\ (run_eq ir a b = Some true -> run_eq ir b c = Some true -> run_eq ir a c = Some true)
  /\ (run_eq ir a b = Some true <-> run_cmp ir a b = Some Eq)
  /\ (run_cmp ir a b = Some Lt <-> run_cmp ir b a = Some Gt)
  /\ (run_cmp ir a b = Some Lt -> run_cmp ir b c = Some Lt -> run_cmp ir a c = Some Lt).
Proof.
  intros ir H a b c.
  destruct (cmp_agree ir H a b) as (E1 & E2 & _). destruct (cmp_agree ir H b a) as (F1 & F2 & _).
  destruct (cmp_agree ir H b c) as (G1 & G2 & _). destruct (cmp_agree ir H a c) as (K1 & K2 & _).
  destruct (cmp_agree ir H a a) as (L1 & _).
  rewrite E1, E2, F1, F2, G1, G2, K1, K2, L1. rewrite N.eqb_refl. rewrite (N.eqb_sym (h_stamp b) (h_stamp a)).
  repeat split; auto.
  - intros X Y. injection X as X. injection Y as Y. apply N.eqb_eq in X, Y. f_equal. apply N.eqb_eq. congruence.
  - intros X. injection X as X. apply N.eqb_eq in X. f_equal. apply N.compare_eq_iff. congruence.
  - intros X. injection X as X. apply N.compare_eq_iff in X. f_equal. apply N.eqb_eq. congruence.
  - intros X. injection X as X. f_equal. rewrite N.compare_antisym. rewrite X. reflexivity.
  - intros X. injection X as X. f_equal. rewrite N.compare_antisym. rewrite X. reflexivity.
  - intros X Y. injection X as X. injection Y as Y. rewrite N.compare_lt_iff in X. rewrite N.compare_lt_iff in Y. f_equal. apply N.compare_lt_iff. lia.
Qed.

(* ---------- histories ---------- *)
Definition key (h : handle) : nat * N := (h_arc h, h_stamp h).

Definition count (a : nat) (l : list handle) : nat := List.length (filter (fun x => Nat.eqb (h_arc x) a) l).

Definition WI (w : world) : Prop :=
  (forall a, w_strong w a = count a (w_live w))
  /\ (forall h, In h (w_live w) -> (h_arc h < w_narcs w)%nat /\ h_stamp h <= w_last w)
  /\ (forall h1 h2, In h1 (w_live w) -> In h2 (w_live w) -> ((h_arc h1 < h_arc h2)%nat <-> h_stamp h1 < h_stamp h2)).

Lemma count_cons : forall a h l, count a (h :: l) = ((if Nat.eqb (h_arc h) a then 1 else 0) + count a l)%nat.
Proof. intros. unfold count. simpl. destruct (Nat.eqb (h_arc h) a); reflexivity. Qed.

Lemma count_remove : forall a l i h, nth_error l i = Some h ->
  count a l = ((if Nat.eqb (h_arc h) a then 1 else 0) + count a (remove_nth i l))%nat.
Proof.
  intros a. induction l as [|x l IH]; intros i h E; [destruct i; discriminate E|].
  destruct i as [|i]; simpl in E.
  - inversion E; subst. simpl remove_nth. apply count_cons.
  - simpl remove_nth. rewrite !count_cons. rewrite (IH i h E). lia.
Qed.

Lemma count_update : forall a f, (forall h, h_arc (f h) = h_arc h) -> forall l i, count a (update_nth i f l) = count a l.
Proof.
  intros a f Hf. induction l as [|x l IH]; intros i; [destruct i; reflexivity|].
  destruct i as [|i]; simpl update_nth; rewrite !count_cons; [rewrite Hf; reflexivity|rewrite IH; reflexivity].
Qed.

Lemma In_remove : forall (l : list handle) i x, In x (remove_nth i l) -> In x l.
Proof.
  induction l as [|y l IH]; intros i x H; [destruct i; exact H|].
  destruct i as [|i]; simpl in H; [right; exact H|]. destruct H as [H|H]; [left; exact H|right; eapply IH; eauto].
Qed.

Lemma In_update : forall f (l : list handle) i x, In x (update_nth i f l) -> exists y, In y l /\ (x = y \/ x = f y).
Proof.
  intros f. induction l as [|y l IH]; intros i x H; [destruct i; contradiction|].
  destruct i as [|i]; simpl in H; destruct H as [H|H].
  - exists y. split; [left; reflexivity|right; auto].
  - exists x. split; [right; exact H|left; reflexivity].
  - exists y. split; [left; reflexivity|left; auto].
  - destruct (IH i x H) as (z & I & E). exists z. split; [right; exact I|exact E].
Qed.

Lemma count_fresh : forall n l, (forall h, In h l -> (h_arc h < n)%nat) -> count n l = O.
Proof.
  intros n. induction l as [|x l IH]; intros H; [reflexivity|].
  rewrite count_cons. rewrite IH by (intros h I; apply H; right; exact I).
  specialize (H x (or_introl eq_refl)). destruct (Nat.eqb_spec (h_arc x) n); lia.
Qed.

Section WorldInv.
Variables (dir : debut_ir) (fuel : nat) (clock : nat -> N).
Hypothesis Hwf : wf_debut dir = true.

Lemma WI_step : forall w o, WI w -> WI (wstep dir fuel clock w o).
Proof.
  intros w o (A & B & C). destruct o as [|i|i|i s]; simpl.
  - (* new *)
    destruct (run_full dir fuel clock (w_pos w) (w_last w)) as [s|] eqn:E; [|repeat split; auto; apply B || apply C; auto].
    assert (Lt : w_last w < val (d_ret dir) s).
    { apply (debut_strict dir Hwf fuel clock (w_pos w) (w_last w) _ (s_pos s)). unfold run_debut. rewrite E. reflexivity. }
    pose proof (debut_stored dir Hwf _ _ _ _ _ E) as St.
    unfold WI; simpl. rewrite St. split; [|split].
    + intros a. rewrite count_cons. simpl. unfold bump_arc. rewrite (Nat.eqb_sym a (w_narcs w)).
      destruct (Nat.eqb_spec (w_narcs w) a) as [<-|Ne]; [|apply A].
      rewrite count_fresh; [reflexivity|]. intros h I. apply B. exact I.
    + intros h [<-|I]; simpl; [split; lia|]. destruct (B h I). split; lia.
    + intros h1 h2 [<-|I1] [<-|I2]; simpl.
      * split; lia.
      * destruct (B h2 I2). split; lia.
      * destruct (B h1 I1). split; lia.
      * apply C; auto.
  - (* clone *)
    destruct (nth_error (w_live w) i) as [h|] eqn:E; [|repeat split; auto; apply B || apply C; auto].
    pose proof (nth_error_In _ _ E) as I.
    unfold WI; simpl. split; [|split].
    + intros a. rewrite count_cons. unfold bump_arc. rewrite (Nat.eqb_sym a (h_arc h)). rewrite A.
      destruct (Nat.eqb (h_arc h) a); reflexivity.
    + intros h' [<-|I']; apply B; auto.
    + intros h1 h2 [<-|I1] [<-|I2]; apply C; auto.
  - (* drop *)
    destruct (nth_error (w_live w) i) as [h|] eqn:E; [|repeat split; auto; apply B || apply C; auto].
    unfold WI; simpl. split; [|split].
    + intros a. unfold bump_arc. rewrite (Nat.eqb_sym a (h_arc h)). rewrite A. rewrite (count_remove a _ _ _ E).
      destruct (Nat.eqb (h_arc h) a); simpl; reflexivity.
    + intros h' I'. apply B. eapply In_remove; eauto.
    + intros h1 h2 I1 I2. apply C; eapply In_remove; eauto.
  - (* rename *)
    unfold WI; simpl. split; [|split].
    + intros a. rewrite count_update; [apply A|reflexivity].
    + intros h' I'. apply In_update in I'. destruct I' as (y & Iy & [->| ->]); simpl; apply B; auto.
    + intros h1 h2 I1 I2. apply In_update in I1. apply In_update in I2.
      destruct I1 as (y1 & J1 & [->| ->]), I2 as (y2 & J2 & [->| ->]); simpl; apply C; auto.
Qed.

Lemma WI_init : forall last pos, WI (w0 last pos).
Proof. intros. unfold WI, w0; simpl. repeat split; intros; try contradiction; reflexivity. Qed.

Lemma WI_run : forall ops w, WI w -> WI (wrun dir fuel clock w ops).
Proof. induction ops as [|o ops IH]; intros w H; [exact H|]. simpl. apply IH. apply WI_step. exact H. Qed.
End WorldInv.

(* instance count = number of live clones of that handle (itself included), after ANY history *)
Theorem world_count : forall dir ir, wf_debut dir = true -> wf_cmp ir = true ->
  forall fuel clock last pos ops h, let w := wrun dir fuel clock (w0 last pos) ops in
  In h (w_live w) -> run_count ir w h = Some (clones_of h (w_live w)).
Proof.
  intros dir ir Hd Hc fuel clock last pos ops h w I.
  destruct (WI_run dir fuel clock Hd ops _ (WI_init last pos)) as (A & _). fold w in A.
  unfold wf_cmp in Hc. repeat (apply andb_prop in Hc; destruct Hc as [Hc ?]).
  unfold run_count. destruct (c_count ir) as [[]| |]; try discriminate. rewrite A. reflexivity.
Qed.

(* clones of one handle compare equal, handles of different actors never do -- whatever was renamed *)
Theorem world_eq : forall dir ir, wf_debut dir = true -> wf_cmp ir = true ->
  forall fuel clock last pos ops h1 h2, let w := wrun dir fuel clock (w0 last pos) ops in
  In h1 (w_live w) -> In h2 (w_live w) -> run_eq ir h1 h2 = Some (Nat.eqb (h_arc h1) (h_arc h2)).
Proof.
  intros dir ir Hd Hc fuel clock last pos ops h1 h2 w I1 I2.
  destruct (WI_run dir fuel clock Hd ops _ (WI_init last pos)) as (_ & _ & C). fold w in C.
  destruct (cmp_agree ir Hc h1 h2) as (E & _). rewrite E. f_equal.
  pose proof (C h1 h2 I1 I2) as P. pose proof (C h2 h1 I2 I1) as Q.
  destruct (N.eqb_spec (h_stamp h1) (h_stamp h2)); destruct (Nat.eqb_spec (h_arc h1) (h_arc h2)); auto; exfalso; lia.
Qed.

(* ordering is the reverse of creation order: the earlier actor is the greater one, consistently for cmp, partial_cmp, < *)
Theorem world_order : forall dir ir, wf_debut dir = true -> wf_cmp ir = true ->
  forall fuel clock last pos ops h1 h2, let w := wrun dir fuel clock (w0 last pos) ops in
  In h1 (w_live w) -> In h2 (w_live w) -> (h_arc h1 < h_arc h2)%nat ->
  run_cmp ir h1 h2 = Some Gt /\ run_partial ir h1 h2 = Some (Some Gt) /\ run_lt ir h2 h1 = Some true /\ run_lt ir h1 h2 = Some false.
Proof.
  intros dir ir Hd Hc fuel clock last pos ops h1 h2 w I1 I2 L.
  destruct (WI_run dir fuel clock Hd ops _ (WI_init last pos)) as (_ & _ & C). fold w in C.
  apply (C h1 h2 I1 I2) in L.
  destruct (cmp_agree ir Hc h1 h2) as (_ & E2 & E3 & E4). destruct (cmp_agree ir Hc h2 h1) as (_ & _ & _ & F4).
  rewrite E2, E3, E4, F4.
  assert (G : (h_stamp h2 ?= h_stamp h1) = Gt) by (apply N.compare_gt_iff; exact L).
  rewrite G. repeat split; f_equal; [apply N.ltb_lt; exact L|apply N.ltb_ge; lia].
Qed.

Lemma canonical_cmp_wf : wf_cmp cmp_ir_canonical = true.
Proof. reflexivity. Qed.

(* a history with two actors, clones, a drop and renames: counts 2 and 1, clones equal, actors differ *)
Example ex_history :
  let w := wrun debut_ir_canonical 30 (clock_of [100; 101] 0) (w0 100 0) [HNew; HNew; HClone 1; HClone 0; HRename 0 "Alice"; HDrop 1; HClone 0] in
  map (fun h => (h_arc h, h_stamp h, run_count cmp_ir_canonical w h)) (w_live w)
  = [(0%nat, 101, Some 3%nat); (0%nat, 101, Some 3%nat); (1%nat, 102, Some 1%nat); (0%nat, 101, Some 3%nat)].
Proof. vm_compute. reflexivity. Qed.

(* ---------- alternative trait bodies violate the property (witnesses for the failing-input search) ---------- *)
Lemma alt_cmp_not_reversed : exists a b,
  run_cmp {| c_eq := CEq (Op Self FDebut) (Op Other FDebut); c_partial := CPartial (Op Other FDebut) (Op Self FDebut);
             c_cmp := CCmp (Op Self FDebut) (Op Other FDebut); c_eq_marker := true; c_count := CntStrong FDebut;
             c_clone_derived := true; c_arc_fresh := true |} a b <> Some (N.compare (h_stamp b) (h_stamp a)).
Proof. exists {| h_stamp := 1; h_name := ""; h_arc := 0 |}, {| h_stamp := 2; h_name := ""; h_arc := 1 |}. vm_compute. discriminate. Qed.

Lemma alt_eq_on_name : exists a b,
  run_eq {| c_eq := CEq (Op Self FName) (Op Other FName); c_partial := CPartial (Op Other FDebut) (Op Self FDebut);
            c_cmp := CCmp (Op Other FDebut) (Op Self FDebut); c_eq_marker := true; c_count := CntStrong FDebut;
            c_clone_derived := true; c_arc_fresh := true |} a b <> Some (h_stamp a =? h_stamp b).
Proof. exists {| h_stamp := 1; h_name := "x"; h_arc := 0 |}, {| h_stamp := 2; h_name := "x"; h_arc := 1 |}. vm_compute. discriminate. Qed.
