(* Gen/HandleOps.v -- C11, dynamic half: what creating / dropping a clone of the handle does in the runtime LTS
   (Runtime/Actor.v).  A clone is one more sender on THE queue of the model (there is one queue, one actor value and one
   play loop per state: every handle of every client addresses it); CloneH / DropH are ordinary client operations, so every
   theorem about [run] already quantifies over programs that clone and drop at any point.  Here: the step-level frame
   facts (nothing that belongs to a call in flight is touched) and the sender-count bookkeeping. *)
From Coq Require Import List Arith Bool Lia.
Import ListNotations.
From IT Require Import Runtime.Actor Runtime.Lists Runtime.InvDefs2 Runtime.InvStop.

Section HandleOps.
Context {A V : Type}.
Variable sem : nat -> A -> list V -> option (A * V).
Variable sem_slf : nat -> A -> list V -> V.
Variable dv : V.
Notation st := (@st A V).
Notation step := (step sem sem_slf dv).
Notation run := (run sem sem_slf dv).

(* everything a call in flight lives in: the queue, the message being executed, the oneshot slots, the actor value,
   the loop's status, and the whole recorded history *)
Definition calls_untouched (s s' : st) : Prop :=
  queue s' = queue s /\ busy s' = busy s /\ slots s' = slots s /\ actor s' = actor s /\ exited s' = exited s /\
  issued s' = issued s /\ enq s' = enq s /\ deq s' = deq s /\ lost s' = lost s /\ applied s' = applied s /\
  dropped s' = dropped s /\ hist s' = hist s /\ ctor_runs s' = ctor_runs s /\ spawns s' = spawns s /\
  drops s' = drops s /\ moved s' = moved s.
(* no other client is affected, whatever it is doing (sending, waiting for its reply, ...) *)
Definition others_untouched (t : nat) (s s' : st) : Prop :=
  forall t', t' <> t -> nth_error (clients s') t' = nth_error (clients s) t'.

Lemma put_other (s s1 : st) t c t' : t' <> t -> clients s1 = clients s ->
  nth_error (clients (put s t c s1)) t' = nth_error (clients s) t'.
Proof. intros N _. unfold put. cbn. apply upd_other. congruence. Qed.

(* cloning: one more sender, the client owns one more handle; nothing else changes *)
Theorem clone_frame m (s : st) t c rest :
  nth_error (clients s) t = Some c -> c_pc c = Ready -> c_prog c = CloneH :: rest ->
  exists s', step m s (Cl t) = Some s' /\ calls_untouched s s' /\ others_untouched t s s' /\
    let made := (0 <? c_nh c) && r_clonable m in
    senders s' = (if made then S (senders s) else senders s) /\
    nth_error (clients s') t = Some (mk_client Ready rest (if made then S (c_nh c) else c_nh c) (c_seq c) (c_rets c)).
Proof.
  intros Hc Hp Hg. pose proof (nth_error_lt _ _ _ Hc) as Lt.
  cbn [Actor.step]. unfold step_client. rewrite Hc, Hp, Hg.
  destruct ((0 <? c_nh c) && r_clonable m) eqn:E; eexists; (split; [reflexivity|]);
    (split; [repeat split|]); (split; [intros t' N; unfold put; cbn; apply upd_other; congruence|]);
    cbn; (split; [reflexivity|]); unfold put; cbn; apply upd_same; exact Lt.
Qed.

(* dropping a clone: one sender less; nothing else changes - in particular nothing queued, executing or awaited is lost *)
Theorem drop_frame m (s : st) t c rest :
  nth_error (clients s) t = Some c -> c_pc c = Ready -> c_prog c = DropH :: rest ->
  exists s', step m s (Cl t) = Some s' /\ calls_untouched s s' /\ others_untouched t s s' /\
    let had := 0 <? c_nh c in
    senders s' = (if had then pred (senders s) else senders s) /\
    nth_error (clients s') t = Some (mk_client Ready rest (if had then pred (c_nh c) else c_nh c) (c_seq c) (c_rets c)).
Proof.
  intros Hc Hp Hg. pose proof (nth_error_lt _ _ _ Hc) as Lt.
  cbn [Actor.step]. unfold step_client. rewrite Hc, Hp, Hg.
  destruct (0 <? c_nh c) eqn:E; eexists; (split; [reflexivity|]);
    (split; [repeat split|]); (split; [intros t' N; unfold put; cbn; apply upd_other; congruence|]);
    cbn; (split; [reflexivity|]); unfold put; cbn; apply upd_same; exact Lt.
Qed.

(* the loop ends for lack of senders only when the count is 0: dropping a clone while another handle exists cannot end it *)
Theorem drop_keeps_alive m (s : st) t c rest s' :
  nth_error (clients s) t = Some c -> c_pc c = Ready -> c_prog c = DropH :: rest ->
  step m s (Cl t) = Some s' -> 1 < senders s -> 0 < senders s' /\ exited s' = exited s.
Proof.
  intros Hc Hp Hg St L. destruct (drop_frame m s t c rest Hc Hp Hg) as (s2 & St2 & F & _ & N & _).
  rewrite St in St2. injection St2 as <-. split; [|apply F].
  cbn zeta in N. destruct (0 <? c_nh c); rewrite N; destruct (senders s) as [|[|n]]; cbn; lia.
Qed.

(* sender count = number of live handles, in every reachable state of every program (clones and drops included) *)
Theorem senders_are_handles m (a0 : A) progs sched :
  let s := run m a0 progs sched in senders s = list_sum (map c_nh (clients s)).
Proof. exact (senders_reachable sem sem_slf dv m a0 progs sched). Qed.

(* a handle obtained by cloning is as good as the original: a call issued through any handle the client owns goes to the
   one queue of the model - the enabling condition of Call only asks for [0 < c_nh] *)
Theorem call_through_any_handle m (s : st) t c k vs rest :
  nth_error (clients s) t = Some c -> c_pc c = Ready -> c_prog c = Call k vs :: rest ->
  0 < c_nh c -> k < length (r_meths m) ->
  exists s', step m s (Cl t) = Some s' /\ issued s' = issued s ++ [((t, c_seq c), k, vs)] /\ queue s' = queue s /\
    nth_error (clients s') t = Some (mk_client (Sending (t, c_seq c) k vs false) rest (c_nh c) (S (c_seq c)) (c_rets c)).
Proof.
  intros Hc Hp Hg Nh Hk. pose proof (nth_error_lt _ _ _ Hc) as Lt.
  cbn [Actor.step]. unfold step_client. rewrite Hc, Hp, Hg.
  apply Nat.ltb_lt in Nh. apply Nat.ltb_lt in Hk. rewrite Nh, Hk. cbn.
  eexists. split; [reflexivity|]. cbn. split; [reflexivity|]. split; [reflexivity|].
  apply upd_same. exact Lt.
Qed.
End HandleOps.

(* the hypotheses of the frame theorems are met in reachable states with a call in flight: client 1 has sent a
   value-returning call and waits for the reply (message queued) while client 0 is about to clone, then drop *)
Definition ex_meth : rmeth :=
  {| rm_reply := true; rm_send := SBlocking; rm_loud_send := true; rm_loud_wait := true; rm_fields := [0]; rm_args := [0];
     rm_callee := 0; rm_reply_own := true; rm_loud_reply := true; rm_msg := true |}.
Definition ex_model : rmodel :=
  {| r_cap := Some 2; r_meths := [ex_meth]; r_clonable := true; r_guard := false; r_stop_first := true; r_drain := true |}.
Definition ex_state : @st nat nat :=
  run (fun _ a vs => Some (a + 1, a)) (fun _ a _ => a) 0 ex_model 0
      [([CloneH; DropH], 1); ([Call 0 [7]], 1)] [Cl 1; Cl 1].
Example frame_hypotheses_reachable :
  exists c rest, nth_error (clients ex_state) 0 = Some c /\ c_pc c = Ready /\ c_prog c = CloneH :: rest /\
                 queue ex_state = [Msg (1, 0) 0 [7]] /\
                 exists w, nth_error (clients ex_state) 1 = Some w /\ c_pc w = Waiting (1, 0) 0.
Proof. eexists. eexists. split; [reflexivity|]. repeat split. eexists. split; reflexivity. Qed.
