(* C14 -- interact: channel ends are paired per call, getters are read per call.
   Statements only; proofs live in Gen/InteractThm.v (generator), Gen/InteractRt.v (runtime) and Sdpl/WfC14.v (instances). *)
From Coq Require Import List String Arith Bool.
Import ListNotations.
From IT Require Import Sdpl.IR Sdpl.Elab Sdpl.WfC14 Gen.Interact Gen.InteractThm Gen.InteractRt.
Open Scope string_scope.

(* ---------- generator: every parameter list of a `&self` / `&mut self` method, `interact` given ---------- *)

(* inter variables (identifier parameters whose name contains `inter_`) vanish from the handle signature;
   the remaining parameters keep their order and their types (patterns flattened to one identifier) *)
Theorem C14_live_params : forall ret ps o, gen true ret ps = Ok o ->
  lo_params o = flat_params (filter (fun q => negb (is_ivar q)) ps).
Proof. exact live_params. Qed.

(* in an accepted method the removed parameters are exactly the documented ones: identifiers prefixed `inter_` *)
Theorem C14_removed_are_prefixed : forall ret ps o, gen true ret ps = Ok o ->
  forall q, In q ps -> is_ivar q = is_end_param q || is_getter_param q.
Proof. exact ivar_is_prefixed. Qed.

(* the message variant carries every parameter, inter variables included, in the original order *)
Theorem C14_variant_fields : forall interact ret ps o, gen interact ret ps = Ok o -> lo_fields o = flat_params ps.
Proof. exact variant_fields. Qed.

(* a declared end `inter_send | inter_recv : ..<a>`: only in a method without return type; one typed channel `channel::<a>()`
   is declared in the handle method, the message field keeps the declared name and type, the handle returns the OPPOSITE
   end over the same a, and the end is not a handle parameter *)
Theorem C14_end_returns_opposite : forall ret ps o, gen true ret ps = Ok o ->
  forall k t, In (PId (end_name k), t) ps ->
    ret = false /\ exists a, oneshot_get_type t (end_type_name k) = Some a /\
      lo_ret o = Some (opp k, a) /\ lo_tail o = Some (opp k) /\ pre_chans (lo_pre o) = [Some a] /\
      In (end_name k, t) (lo_fields o) /\ ~ In (end_name k) (map fst (lo_params o)).
Proof. exact end_returns_opposite. Qed.

(* no declared end: return type and tail untouched, no typed channel *)
Theorem C14_no_end_no_change : forall ret ps o, gen true ret ps = Ok o ->
  (forall q, In q ps -> is_end_param q = false) ->
  lo_ret o = None /\ lo_tail o = None /\ pre_chans (lo_pre o) = (if ret then [None] else []).
Proof. exact no_end_no_change. Qed.

(* one `let inter_x = self.inter_get_x();` per getter parameter, in declaration order, and nothing else *)
Theorem C14_getters_read : forall ret ps o, gen true ret ps = Ok o -> pre_gets (lo_pre o) = getters_of ps.
Proof. exact getters_read. Qed.

(* rules *)
Theorem C14_rule_both_ends : forall ret ps, 2 <= List.length (filter is_end_param ps) -> exists d, gen true ret ps = Diag d.
Proof. exact rule_both_ends. Qed.
Theorem C14_rule_end_in_returning_method : forall ps, existsb is_end_param ps = true -> exists d, gen true true ps = Diag d.
Proof. exact rule_end_in_returning_method. Qed.
Theorem C14_rule_without_interact : forall ret ps q x, In q ps -> In x (leaves (fst q)) -> reserved x = true ->
  exists d, gen false ret ps = Diag d.
Proof. exact rule_without_interact. Qed.
(* naming checks, run before the interact rules, with or without `interact`:
   two parameters that flatten to the same identifier are refused (`inter_recv` twice; `(inter, count)` next to `inter_count`) *)
Theorem C14_rule_duplicate_flat_names : forall interact ret ps, ~ NoDup (map fname ps) -> exists d, gen interact ret ps = Diag d.
Proof. exact rule_duplicate_flat_names. Qed.
(* a composite pattern that flattens to a name the model binds itself (inter_send, inter_recv, inter_actor) is refused ... *)
Theorem C14_rule_reserved_from_pattern : forall interact ret ps q, In q ps -> composite (fst q) = true -> model_reserved (fname q) = true ->
  exists d, gen interact ret ps = Diag d.
Proof. exact rule_reserved_from_pattern. Qed.
(* `inter_actor` anywhere in a parameter pattern is refused *)
Theorem C14_rule_inter_actor : forall interact ret ps q, In q ps -> In "inter_actor" (leaves (fst q)) -> gen interact ret ps = Diag DInterActor.
Proof. exact rule_inter_actor. Qed.
(* accepted methods carry pairwise distinct field names: a getter `let` can no longer shadow a handle parameter *)
Theorem C14_field_names_distinct : forall interact ret ps o, gen interact ret ps = Ok o -> NoDup (map fst (lo_fields o)).
Proof. exact field_names_distinct. Qed.
(* ... FULL STRENGTH "an inter variable anywhere inside a pattern is refused" is false of the faithful model (and of the
   code: `(inter_send, b): (..)` is an ordinary parameter `inter_send_b`); the documentation does not demand it *)
Theorem C14_rule_inside_pattern_refuted :
  exists ps o, In "inter_send" (leaves (fst (hd (PRest, TOther "") ps))) /\ gen true false ps = Ok o.
Proof. exact rule_inside_pattern_refuted. Qed.
(* an identifier that contains `inter_` without starting with it is refused *)
Theorem C14_rule_mixed_identifier : forall ret ps x t, In (PId x, t) ps -> contains "inter_" x = true -> prefix "inter_" x = false ->
  exists d, gen true ret ps = Diag d.
Proof. exact rule_mixed_identifier. Qed.

(* the declared type of an end parameter is the type of the end the handle puts there: `..::Sender<a>` for inter_send,
   `..::Receiver<a>` for inter_recv, the same a in the channel declaration and in the returned opposite end
   (full strength since the fix of `oneshot_get_type`; formerly guarded by the known class end-type-unchecked, F10) *)
Theorem C14_end_type_coherent : forall ret ps o, gen true ret ps = Ok o -> coherent ps o.
Proof. exact end_type_coherent. Qed.
(* rule: an end parameter whose type does not name the end it asks for is refused *)
Theorem C14_rule_wrong_end_type : forall ret ps q, In q ps -> is_end_param q = true -> end_type_named q = false ->
  exists d, gen true ret ps = Diag d.
Proof. exact rule_wrong_end_type. Qed.

(* ---------- runtime: every interleaving of calls, renames, deliveries, sends and receives ---------- *)
Section Runtime.
Context {G : Type} (gv : G -> nat -> nat) (meths : list (imeth G)).

(* a value received on an end obtained through call c was sent by the other party of call c, on call c's own channel *)
Theorem C14_pairing : forallb (im_ok G) meths = true -> forall s, reach G gv meths s ->
  forall r v w, In (r, v, w) (got s) -> match r with WClient c => w = WActor c | WActor c => w = WClient c end.
Proof. exact (no_crosstalk G gv meths). Qed.

(* the handle returns one end of the channel of the call; the message of the same call carries the opposite end *)
Theorem C14_ends_paired : forall s, reach G gv meths s -> forall c m fs im, In (c, m, fs) (queue s ++ delivered s) -> nth_error meths m = Some im ->
  forall k, im_ret G im = (match k with Tx => BdTx G | Rx => BdRx G end) ->
    In (c, FEnd c k) (rets s) /\
    (In (match k with Tx => BdRx G | Rx => BdTx G end) (im_fields G im) -> In (FEnd c (match k with Tx => Rx | Rx => Tx end)) fs).
Proof. exact (ends_paired G gv meths). Qed.

(* a getter field holds the getter of the calling clone's state at the moment of the call *)
Theorem C14_getter_at_call_time : forall s, reach G gv meths s -> forall c m fs, In (c, m, fs) (queue s ++ delivered s) ->
  exists im h args, nth_error meths m = Some im /\ In (c, m, h, args) (issued s) /\
    (forall h' m' a', In (c, m', h', a') (issued s) -> h' = h) /\
    forall j g, nth_error (im_fields G im) j = Some (BdGet G g) -> nth_error fs j = Some (FVal (gv g h)).
Proof. exact (getter_at_call_time G gv meths). Qed.
End Runtime.

(* ---------- instances: the runtime theorem at the resolved form of a real expansion ---------- *)
Theorem C14_pairing_of_instance : forall m, wf_C14 m = true -> forall gv s, reach string gv (meths14 m) s ->
  forall r v w, In (r, v, w) (got s) -> match r with WClient c => w = WActor c | WActor c => w = WClient c end.
Proof. exact pairing_of_instance. Qed.
Theorem C14_returned_end_is_opposite : forall m lm rb e, wf_C14 m = true -> In lm (m_methods m) -> lm_body lm = BRef rb -> rb_tail rb = TRet e ->
  (im_ret _ (elab14 lm) = BdRx _ /\ field_bnd lm rb "inter_send" = BdTx _) \/
  (im_ret _ (elab14 lm) = BdTx _ /\ field_bnd lm rb "inter_recv" = BdRx _).
Proof. exact returned_end_is_opposite. Qed.

Print Assumptions C14_live_params.
Print Assumptions C14_removed_are_prefixed.
Print Assumptions C14_variant_fields.
Print Assumptions C14_end_returns_opposite.
Print Assumptions C14_no_end_no_change.
Print Assumptions C14_getters_read.
Print Assumptions C14_rule_both_ends.
Print Assumptions C14_rule_end_in_returning_method.
Print Assumptions C14_rule_without_interact.
Print Assumptions C14_rule_duplicate_flat_names.
Print Assumptions C14_rule_reserved_from_pattern.
Print Assumptions C14_rule_inter_actor.
Print Assumptions C14_field_names_distinct.
Print Assumptions C14_rule_inside_pattern_refuted.
Print Assumptions C14_rule_mixed_identifier.
Print Assumptions C14_end_type_coherent.
Print Assumptions C14_rule_wrong_end_type.
Print Assumptions C14_pairing.
Print Assumptions C14_ends_paired.
Print Assumptions C14_getter_at_call_time.
Print Assumptions C14_pairing_of_instance.
Print Assumptions C14_returned_end_is_opposite.
