"""C19 -- invalid or contradictory configuration is rejected, valid configuration accepted, nothing silently ignored.

Every run:
 1. re-checks coq/theories/Properties/C19.v (accept <-> valid for actor / family / example, never-panic, faithfulness of every
    accepted field, one lemma per documented rule) and the hygiene of the development;
 2. tie A (H-tie, option level): an option-grammar corpus (valid lists, single-rule mutations, random meta trees, regression inputs of
    the former finding classes; thorough: exhaustive small scopes) goes through the REAL option parsers + cross_check (hook jobs fn:attr_args /
    fn:example_args: ActorAttributeArguments::from + cross_check, ExampleAttributeArguments::from) and through the Coq model
    (Gen/Attr.v parse_args / parse_example); compared: result class and the canonical dump of EVERY field of the accepted
    configuration (members included).  The reference validator valid_* and the denotation denote_* (Gen/AttrSpec.v, written from the
    documented tables) are evaluated in the same Coq batch and are the oracle: real accept <-> valid, real dump = denote;
 3. tie B (end to end): the same kind of option lists through the real `actor` / `family` entry points with a fixed impl block:
    result class vs model, and for accepted ones the reflections of the options in the emitted code (per model: type names,
    channel constructor + capacity, runtime crate, debut items, Debug impl, method set after the filter, lock kind, show docs,
    interact signature) vs the model's configuration;
 4. method-level rules (oracle on generated impl blocks violating exactly one documented rule; twin without the violation);
 5. the edit grammar: an independent validator written from the documentation (doc_edit_valid) vs the real parser;
 6. `example` end to end in a sandbox tree;
 7. the inputs of the former known-finding classes (name-not-ident, leaf-not-bare, edit-empty-list, family-edit-form,
    example-unknown-option, inter-end-type; all repaired in the crate) are regression inputs of the corpus: a recurrence is a
    VIOLATION with that input.  No known-finding class remains.
"""
import os, re, random, json, itertools
import hook, inst, gen_impl, c19_gen as G
from common import *

PID = "C19"
RULE = ("tie A: option lists x {actor, family, example} through the real parsers (hook fn:attr_args / fn:example_args) and the Coq model, "
        "projection = result class + canonical dump of every configuration field; oracle = valid_* / denote_* of Gen/AttrSpec.v; "
        "tie B: real expansions vs reflections of the options; non-trivial = distinct (macro, sorted option keys, result class) classes")

IMPORTS = ("From Coq Require Import List String ZArith NArith Bool.\nImport ListNotations.\n"
           "From IT Require Import Gen.Attr Gen.AttrSpec.\nOpen Scope string_scope.\n")

FIXED_IMPL = """impl A {
    pub fn new(v: i8) -> Self { todo!() }
    pub fn inc(&mut self) {}
    pub fn add(&mut self, n: i8) {}
    pub fn get(&self) -> i8 { 0 }
    pub fn io(&self, n: i8) -> i8 { n }
    fn private(&self) {}
%s}"""
HEAVY = "    pub fn heavy(&self, inter_send: oneshot::Sender<u8>) {}\n"


# ---------------------------------------------------------------- corpus
def mutations(rng, files, n):
    """single-rule violations on top of a valid list: (kind, tree list, rule name)"""
    out = []
    for _ in range(n):
        kind = rng.choice(["actor", "actor", "family", "member"])
        if kind == "actor":
            base = G.gen_actor_opts(rng, files)
        else:
            base = G.gen_family_opts(rng, files)
        r = rng.random()

        def target_list():
            """the list the mutation edits: top level, or the options of a random member"""
            if kind != "member":
                return base, None
            idx = [i for i, o in enumerate(base) if G.key(o) == "actor"]
            i = rng.choice(idx)
            return list(base[i][2]), i

        tl, mi = target_list()

        def done(rule):
            if mi is not None:
                base[mi] = ("L", ["actor"], tl)
            out.append(("family" if kind != "actor" else "actor", list(base), rule))

        if r < 0.30:
            k = rng.choice(list(G.WRONG_VALUES))
            tl[:] = G.replace_key(tl, k, rng.choice(G.WRONG_VALUES[k])())
            done("wrong-value:" + k)
        elif r < 0.42:
            u = rng.choice(G.UNKNOWN_KEYS)
            t = rng.choice([G.P(u), G.NV(u, G.I(1)), G.NV(u, G.S("x")), G.L(u, G.P("a"))])
            tl.insert(rng.randint(0, len(tl)), t)
            done("unknown-key")
        elif r < 0.54:
            if tl:
                d = rng.choice(tl)
                tl.insert(rng.randint(0, len(tl)), d)
                done("duplicate-key")
        elif r < 0.62:
            tl[:] = [o for o in tl if G.key(o) not in ("include", "exclude")]
            two = [G.L("include", G.P("inc")), G.L("exclude", G.P("get"))]
            rng.shuffle(two)
            for t in two:
                tl.insert(rng.randint(0, len(tl)), t)
            done("include+exclude")
        elif r < 0.68:
            q = rng.choice([("P", ["a", "b"]), ("P", ["", "show"]), ("NV", ["interthread", "name"], G.S("B")), ("L", ["x", "include"], [G.P("inc")])])
            tl.insert(rng.randint(0, len(tl)), q)
            done("qualified-path")
        elif r < 0.74 and kind == "actor":
            tl.insert(0, G.NV("first_name", G.S("U")))
            done("first_name-outside-family")
        elif r < 0.80 and kind != "actor":
            if kind == "family":
                base[:] = [o for o in base if G.key(o) != "actor"]
                out.append(("family", list(base), "family-without-members"))
            else:
                tl[:] = [o for o in tl if G.key(o) != "first_name"]
                done("member-without-first_name")
        elif r < 0.85 and kind != "actor":
            base[:] = G.replace_key([o for o in base], "lib", G.NV("lib", G.S("smol")))
            out.append(("family", list(base), "family+smol"))
        elif r < 0.92 and kind == "actor":
            tl[:] = [o for o in tl if G.key(o) not in ("edit", "file")]
            tl.append(rng.choice([G.L("edit", G.P("file")), G.L("edit", G.L("file", G.P("live"))), G.L("edit", G.L("live", G.L("imp", G.L("file", G.P("inc")))))]))
            fk = rng.choice([None, "two", "none", "missing"])
            if fk:
                tl.append(G.NV("file", G.S(files[fk])))
            rng.shuffle(tl)
            done("file-marker:" + str(fk))
        elif kind != "actor":
            tl.insert(0, rng.choice([G.P("interact"), G.L("include", G.P("inc")), G.P("Debug")]) if kind == "family"
                      else rng.choice([G.P("Mutex"), G.P("RwLock"), G.L("actor", G.NV("first_name", G.S("Q")))]))
            done("option-in-wrong-position")
    return out


LEAVES = ["name", "lib", "channel", "show", "debut", "interact", "include", "exclude", "Debug", "edit", "file", "first_name", "actor", "Mutex", "RwLock",
          "debug", "script", "live", "def", "imp", "trt", "inc", "new", "x", "main", "path", "expand", "family"]


def random_tree(rng, depth=0):
    """unconstrained meta tree over the option vocabulary (adversarial shapes)"""
    nm = rng.choice(LEAVES)
    r = rng.random()
    if r < 0.35 or depth >= 3:
        return G.P(nm)
    if r < 0.6:
        v = rng.choice([G.S("B"), G.S("tokio"), G.S(""), G.I(0), G.I(2), ("O", "true"), ("E", "foo"), G.S("1x")])
        return G.NV(nm, v)
    return G.L(nm, *[random_tree(rng, depth + 1) for _ in range(rng.randint(0, 3))])


def item_variants(files):
    """small scope: for each key a handful of forms (valid and invalid)"""
    vs = []
    for k in ("name", "lib", "channel", "show", "debut", "interact", "include", "exclude", "Debug", "edit", "file", "bogus", "first_name", "Mutex"):
        vs += [G.P(k), G.NV(k, G.I(1)), G.L(k, G.P("inc"))]
    vs += [G.NV("name", G.S("B")), G.NV("lib", G.S("tokio")), G.NV("lib", G.S("smol")), G.NV("channel", G.I(0)), G.NV("file", G.S(files["one"])),
           G.NV("file", G.S(files["two"])), G.L("edit", G.P("file")), G.L("edit", G.L("live", G.P("def"))), G.L("include"), G.NV("first_name", G.S("U"))]
    return vs


def small_scopes(files, rng, tier):
    vs = item_variants(files)
    cases = []
    mem = G.L("actor", G.NV("first_name", G.S("U")))
    for a in vs:
        cases.append(("actor", [a], "scope1"))
        cases.append(("family", [a, mem], "scope1"))
        cases.append(("family", [G.L("actor", G.NV("first_name", G.S("U")), a)], "scope1-member"))
    pairs = list(itertools.permutations(range(len(vs)), 2))
    if tier == "quick":
        pairs = rng.sample(pairs, 150)
    for i, j in pairs:
        cases.append(("actor", [vs[i], vs[j]], "scope2"))
        if tier != "quick" or rng.random() < 0.5:
            cases.append(("family", [vs[i], vs[j], mem], "scope2"))
            cases.append(("family", [G.L("actor", G.NV("first_name", G.S("U")), vs[i], vs[j])], "scope2-member"))
    return cases


def regression_inputs(files):
    """inputs of the former known-finding classes with the documented answer (kind, trees, origin)"""
    mem = G.L("actor", G.NV("first_name", G.S("U")))
    f1 = G.NV("file", G.S(files["one"]))
    return [
        ("actor", [G.NV("name", G.S("1x"))], "regress:name-not-ident"), ("actor", [G.NV("name", G.S("a b"))], "regress:name-not-ident"),
        ("family", [G.L("actor", G.NV("first_name", G.S("a-b")))], "regress:name-not-ident"), ("family", [G.NV("name", G.S("9")), mem], "regress:name-not-ident"),
        ("actor", [G.L("Debug", G.P("foo"))], "regress:leaf-not-bare"), ("actor", [G.NV("Debug", G.S("x"))], "regress:leaf-not-bare"),
        ("actor", [G.L("include", G.NV("inc", G.I(1)))], "regress:leaf-not-bare"), ("actor", [G.L("exclude", G.L("inc", G.P("x")))], "regress:leaf-not-bare"),
        ("family", [G.NV("Mutex", G.I(1)), mem], "regress:leaf-not-bare"), ("family", [G.L("RwLock", G.P("x")), mem], "regress:leaf-not-bare"),
        ("actor", [G.L("edit", G.L("live", G.L("def", G.P("x"))))], "regress:leaf-not-bare"), ("actor", [G.L("edit", G.L("live", G.L("imp", G.NV("inc", G.I(1)))))], "regress:leaf-not-bare"),
        ("actor", [f1, G.L("edit", G.L("live", G.L("imp", G.L("file", G.L("file", G.P("a"))))))], "regress:leaf-not-bare"),
        ("actor", [G.L("edit", G.L("script"))], "regress:edit-empty-list"), ("actor", [G.L("edit")], "regress:edit-empty-list"),
        ("actor", [G.L("edit", G.L("live", G.L("imp")))], "regress:edit-empty-list"), ("actor", [f1, G.L("edit", G.L("file"))], "regress:edit-empty-list"),
        ("family", [G.L("edit"), mem], "regress:edit-empty-list"), ("family", [G.L("actor", G.NV("first_name", G.S("U")), G.L("edit", G.L("script")))], "regress:edit-empty-list"),
        ("actor", [G.P("edit")], "regress:edit-forms"), ("actor", [f1, G.L("edit", G.P("file"))], "regress:edit-forms"), ("actor", [G.L("edit", G.P("script"), G.L("live", G.P("imp")))], "regress:edit-forms"),
        ("family", [G.L("edit", G.P("def"), G.P("imp")), mem], "regress:family-edit-form"), ("family", [G.L("edit", G.P("def")), mem], "regress:family-edit-form"),
        ("family", [G.L("edit", G.L("imp", G.P("new")), G.P("trt"), G.P("def")), mem], "regress:family-edit-form"),
        ("family", [f1, G.L("edit", G.L("file", G.P("def")), G.P("imp")), mem], "regress:family-edit-form"),
        ("family", [G.L("actor", G.NV("first_name", G.S("U")), G.L("edit", G.L("script", G.P("def"))))], "regress:family-edit-form"),
        ("family", [G.L("actor", G.NV("first_name", G.S("U")), G.L("edit", G.L("live", G.L("imp", G.P("inc")))))], "regress:family-edit-form"),
        ("family", [G.L("actor", G.NV("first_name", G.S("U")), G.L("edit", G.P("script"), G.P("live")))], "regress:family-edit-form"),
        ("example", [G.NV("path", G.S(files["one"])), G.P("bogus")], "regress:example-unknown-option"), ("example", [G.NV("path", G.S(files["one"])), G.NV("main", G.I(5))], "regress:example-unknown-option"),
        ("example", [G.NV("path", G.S(files["one"])), G.L("main", G.P("x"))], "regress:example-unknown-option"), ("example", [G.NV("path", G.S(files["one"])), ("P", ["a", "b"])], "regress:example-unknown-option"),
        ("example", [G.NV("path", G.S(files["one"])), G.L("expand", G.L("actor", G.P("x")))], "regress:example-unknown-option"),
        ("example", [G.NV("path", G.S(files["one"])), G.L("expand", G.NV("family", G.I(1)))], "regress:example-unknown-option"),
        ("family", [G.NV("channel", G.I(3)), G.L("actor", G.NV("first_name", G.S("U")), G.NV("channel", G.I(0)))], "regress:F4"),
    ]


# ---------------------------------------------------------------- independent validator of the edit grammar (from the docs)
def _names(lst, in_file):
    seen = set()

    def name1(x):
        if x[0] != "P" or len(x[1]) != 1 or x[1][0] in seen:      # a bare word, once
            return False
        seen.add(x[1][0])
        return True
    if not lst:
        return False
    for x in lst:
        if x[0] == "L" and x[1] == ["file"]:
            if in_file or not x[2]:
                return False
            for y in x[2]:
                if not name1(y):
                    return False
        elif not name1(x):
            return False
    return True


def _part(x, in_file, seen_parts):
    if len(x[1]) != 1 or x[1][0] not in ("def", "imp", "trt"):
        return False
    k = x[1][0]
    if k in seen_parts:
        return False
    seen_parts.add(k)
    if k == "def":
        return x[0] == "P"
    if x[0] == "P":
        return True
    return x[0] == "L" and _names(x[2], in_file)


def _parts(lst, in_file, seen_parts):
    """def | imp[(names)] | trt[(names)], possibly wrapped in file(..) (not inside file)"""
    if not lst:
        return False
    for p in lst:
        if p[1] == ["file"]:
            if in_file or p[0] != "L" or not p[2]:
                return False
            for q in p[2]:
                if q[1] == ["file"] or not _part(q, True, seen_parts):
                    return False
        elif not _part(p, in_file, seen_parts):
            return False
    return True


def doc_edit_valid(t):
    """`edit` of the actor macro and of family members, as documented (lib.rs `# edit`, `# file`; error.rs AVAIL_EDIT, HELP_EDIT_FILE_ACTOR):
       edit | edit(file) | edit(item, ..) with item := sol | file(sol, ..); sol := script | live, bare or with parts;
       part := def | imp | imp(names) | trt | trt(names), possibly wrapped in file(..); names possibly wrapped in file(..);
       script / live once; def / imp / trt once per struct; names once per list; `file` never inside `file`; no empty list; leaves are bare words."""
    seen_sol = set()

    def sol(x, in_file):
        if len(x[1]) != 1 or x[1][0] not in ("script", "live") or x[1][0] in seen_sol:
            return False
        seen_sol.add(x[1][0])
        if x[0] == "P":
            return True
        return x[0] == "L" and _parts(x[2], in_file, set())

    if t[0] == "P":
        return True
    if t[0] != "L" or not t[2]:
        return False
    kids = t[2]
    if len(kids) == 1 and kids[0] == ("P", ["file"]):
        return True
    for x in kids:
        if x[1] == ["file"]:
            if x[0] != "L" or not x[2]:
                return False
            for y in x[2]:
                if y[1] == ["file"] or not sol(y, True):
                    return False
        elif not sol(x, False):
            return False
    return True


def doc_family_edit_valid(t):
    """`edit` of the macro `family` itself as lib.rs documents it: edit | edit(file) | edit(def, imp(..), trt(..)) with optional file(..) wrappers"""
    if t[0] == "P":
        return True
    if t[0] != "L" or not t[2]:
        return False
    if len(t[2]) == 1 and t[2][0] == ("P", ["file"]):
        return True
    return _parts(t[2], False, set())


def random_edit(rng, depth=0):
    """adversarial edit trees over the edit vocabulary"""
    voc = [["script", "live", "file", "def", "bogus"], ["def", "imp", "trt", "file", "script", "x"], ["inc", "get", "file", "new", "inc"], ["inc", "get", "file"], ["a"]][min(depth, 4)]
    nm = rng.choice(voc)
    r = rng.random()
    if depth >= 4 or r < 0.4:
        return G.P(nm)
    if r < 0.45:
        return G.NV(nm, G.I(1))
    return G.L(nm, *[random_edit(rng, depth + 1) for _ in range(rng.choice([0, 1, 1, 2, 2, 3]))])


# ---------------------------------------------------------------- reflections of the options in a real expansion
STR = re.compile(r'"(?:[^"\\]|\\.)*"')


def reflect(text):
    """per generated model: name, channel constructor, capacity, Debug impl, debut items, live methods; plus lock kind / show docs"""
    show = "Interthread Generated Code" in text
    n = re.sub(r"\s+", "", STR.sub('""', text))
    heads = [(m.start(), m.group(1)) for m in re.finditer(r"enum(\w+)Script\b", n)]
    models = []
    for i, (pos, nm) in enumerate(heads):
        seg = n[pos:heads[i + 1][0] if i + 1 < len(heads) else len(n)]
        ct = re.search(r"let\(sender,receiver\)=([\w:]+)\(([^)]*)\);", seg)
        live = re.search(r"impl%sLive\{" % nm, seg)
        mets = set(re.findall(r"pub(?:async)?fn(\w+)\(", seg[live.start():] if live else ""))
        models.append({"name": nm, "ctor": ct.group(1) if ct else None, "cap": ct.group(2) if ct else None,
                       "debug": ("Debugfor%sScript" % nm) in seg, "debut": "fninter_get_debut(" in seg, "methods": mets,
                       "heavy_ret": bool(re.search(r"pub(?:async)?fnheavy\(&self\)->[\w:]*oneshot::Receiver<u8>", seg))})
    lock = "Mutex" if re.search(r"Arc<[\w:]*Mutex<", n) else ("RwLock" if re.search(r"Arc<[\w:]*RwLock<", n) else None)
    fam = re.search(r"struct(\w+)Family\b", n)
    return {"models": models, "lock": lock, "show": show, "family": fam.group(1) if fam else None}


CTOR = {("std", False): "std::sync::mpsc::channel", ("std", True): "std::sync::mpsc::sync_channel",
        ("tokio", False): "tokio::sync::mpsc::unbounded_channel", ("tokio", True): "tokio::sync::mpsc::channel",
        ("async_std", False): "async_std::channel::unbounded", ("async_std", True): "async_std::channel::bounded",
        ("smol", False): "async_channel::unbounded", ("smol", True): "async_channel::bounded"}


def parse_dump(d):
    """'n=..;f=..;..[U{..}V{..}]' -> (top dict, [(first, dict)])"""
    m = re.match(r"^(.*?)\[(.*)\]$", d)
    top, mem = m.group(1), m.group(2)

    def fields(s):
        return dict(x.split("=", 1) for x in s.split(";"))
    mems = [(a, fields(b)) for a, b in re.findall(r"(\w+)\{([^}]*)\}", mem)]
    return fields(top), mems


def expected_models(kind, top, mems):
    """what the documentation says the options mean for the emitted code, per generated model"""
    def one(f, name):
        x = f["x"]
        mets = set(G.METHODS)
        if x.startswith("I:"):
            mets = set(a for a in x[2:].split(",") if a)
        elif x.startswith("E:"):
            mets -= set(a for a in x[2:].split(",") if a)
        return {"name": name, "ctor": CTOR[(f["l"], f["c"] != "u")], "cap": "" if f["c"] == "u" else f["c"], "debug": f["g"] == "1",
                "debut": f["d"] == "1", "methods": mets}
    if kind == "actor":
        return [one(top, top["n"] if top["n"] != "-" else "A")]
    base = top["n"] if top["n"] != "-" else "A"
    return [one(f, first + (f["n"] if f["n"] != "-" else "A")) for first, f in mems]


# ---------------------------------------------------------------- method-level rules
def method_rule_jobs(rng, tier):
    """(rule, kind, attr, impl text, expected class, in_known_class)"""
    jobs = []
    reps = 2 if tier == "quick" else 12
    for _ in range(reps):
        for lib in gen_impl.LIBS:
            noise = [gen_impl.gen_method(rng, n, lib, allow=("ref", "mut"))["text"] for n in rng.sample(gen_impl.METHOD_NAMES, rng.randint(0, 3))]

            def impl(extra):
                ms = ["pub fn new() -> Self { todo!() }"] + noise + extra
                head, rest = ms[0], ms[1:]
                rng.shuffle(rest)
                return "impl A {\n    " + "\n    ".join([head] + rest) + "\n}"
            la = ['lib = "%s"' % lib] if lib != "std" else []

            def attr(*xs):
                return ", ".join(la + list(xs))
            tgt = "pub fn tgt(&self, n: u8) {}"
            asy = "async " if lib != "std" else ""
            jobs += [
                ("filter-names-constructor", "actor", attr(rng.choice(["include(new)", "exclude(new, tgt)", "include(tgt, try_new)"])), impl([tgt]), "DIAG", False),
                ("filter-names-unknown-method", "actor", attr(rng.choice(["include(zzz)", "exclude(tgt, zzz)", "include(tgt, nope)"])), impl([tgt]), "DIAG", False),
                ("filter-ok", "actor", attr(rng.choice(["include(tgt)", "exclude(tgt)", "include()"])), impl([tgt]), "TOKENS", False),
                ("reserved-inter-method", "actor", attr("debut"), impl([rng.choice(["pub fn inter_get_name(&self) -> String { todo!() }", "pub fn inter_get_count(&self) -> usize { 0 }",
                                                                                  "pub fn inter_set_name(&mut self, s: String) {}", "pub fn inter_get_debut(&self) -> u8 { 0 }"])]), "DIAG", False),
                ("reserved-inter-method-twin", "actor", attr(), impl(["pub fn inter_get_name(&self) -> String { todo!() }"]), "TOKENS", False),
                ("inter-param-without-interact", "actor", attr(), impl([rng.choice(["pub fn tgt(&self, inter_send: oneshot::Sender<u8>) {}", "pub fn tgt(&mut self, a: u8, inter_recv: oneshot::Receiver<u8>) {}"])]), "DIAG", False),
                ("inter-param-with-interact", "actor", attr("interact"), impl([rng.choice(["pub fn tgt(&self, inter_send: oneshot::Sender<u8>) {}", "pub fn tgt(&mut self, a: u8, inter_recv: oneshot::Receiver<u8>) {}"])]), "TOKENS", False),
                # names the model binds itself are refused as parameter names of messaging methods, with and without interact
                ("param-named-inter-actor", "actor", attr(), impl([rng.choice(["pub fn tgt(&self, inter_actor: u8) {}", "pub fn tgt(&mut self, a: u8, inter_actor: A) -> u8 { 0 }"])]), "DIAG", False),
                ("param-named-inter-actor-interact", "actor", attr("interact"), impl([rng.choice(["pub fn tgt(&self, inter_actor: u8) {}", "pub fn tgt(&mut self, a: u8, inter_actor: A) -> u8 { 0 }", "pub fn tgt(&self, inter_actor: A, inter_name: String) -> u8 { 0 }"])]), "DIAG", False),
                ("both-channel-ends", "actor", attr("interact"), impl(["pub fn tgt(&self, inter_send: oneshot::Sender<u8>, inter_recv: oneshot::Receiver<u8>) {}"]), "DIAG", False),
                ("channel-end-in-returning-method", "actor", attr("interact"), impl([rng.choice(["pub fn tgt(&self, inter_send: oneshot::Sender<u8>) -> u8 { 0 }", "pub fn tgt(&self, a: u8, inter_recv: oneshot::Receiver<u8>) -> u8 { 0 }"])]), "DIAG", False),
                ("channel-end-wrong-type", "actor", attr("interact"), impl([rng.choice(["pub fn tgt(&self, inter_send: Vec<u8>) {}", "pub fn tgt(&self, inter_recv: Option<u8>) {}", "pub fn tgt(&self, inter_send: oneshot::Receiver<u8>) {}"])]), "DIAG", False),
            ]
            if lib == "std":
                # every shape of a messaging method: the rule is about the method being `async`, not about how its call is packed
                for shape in ("pub async fn tgt(&self, n: u8) {}", "pub async fn tgt(&mut self) -> u8 { 0 }",
                              "pub async fn tgt<T: Into<u8> + Send + 'static>(&mut self, v: T) {}", "pub async fn tgt<T: Into<u8> + Send + 'static>(&self, v: T) -> u8 { 0 }",
                              "pub async fn tgt<const N: usize>(&self, v: [u8; N]) {}"):
                    jobs += [("async-without-runtime", "actor", "", impl([shape]), "DIAG", False)]
                # ... also when a non-async method of the same kind stands next to it
                jobs += [("async-without-runtime", "actor", "", impl(["pub fn other<T: Into<u8> + Send + 'static>(&mut self, v: T) {}", "pub async fn tgt<T: Into<u8> + Send + 'static>(&mut self, v: T) {}"]), "DIAG", False)]
            else:
                jobs += [("async-with-runtime", "actor", attr(), impl(["pub async fn tgt(&self, n: u8) {}"]), "TOKENS", False)]
            if lib != "smol":
                lk = rng.choice(["RwLock", "Mutex"])
                mem = 'actor(first_name = "U")'
                jobs += [
                    ("family-mutable-shared-receiver", "family", attr(lk, mem), impl(["pub fn tgt(actor: &mut std::sync::Arc<std::sync::%s<Self>>, n: u8) {}" % lk]), "DIAG", False),
                    # a member filter may only name methods the member can have: a by-value `self` method is never part of a member's model
                    ("family-filter-names-consuming-method", "family", attr(lk, 'actor(first_name = "U", %s(fin))' % rng.choice(["include", "exclude"]), 'actor(first_name = "V")'),
                     impl(["pub fn tgt(&self, n: u8) {}", "pub fn fin(self) -> u8 { 0 }"]), "DIAG", False),
                    ("family-shared-receiver-twin", "family", attr(lk, mem), impl(["pub %sfn tgt(actor: &std::sync::Arc<std::sync::%s<Self>>, n: u8) {}" % (asy if False else "", lk)]), "TOKENS", False),
                ]
    return jobs


# ---------------------------------------------------------------- the check
def coq_items(cases):
    items = []
    for i, (kind, trees, _) in enumerate(cases):
        l = G.coq_list(trees)
        if kind == "example":
            ex = ('r_res r_ecfg (parse_example fx %s) ++ "|" ++ b01 (valid_example fx %s) ++ "0" ++ "|"' % (l, l))
        elif kind == "actor":
            ex = ('r_res r_cfg (parse_args fx fc Actor %s) ++ "|" ++ b01 (valid_actor fx fc %s) ++ b01 (existsb doc_silent_item %s) ++ "|" ++ r_cfg (denote_actor %s)'
                  % (l, l, l, l))
        else:
            ex = ('r_res r_cfg (parse_args fx fc Family %s) ++ "|" ++ b01 (valid_family fx fc %s) ++ b01 (doc_silent_family %s) ++ "|" ++ r_cfg (denote_family %s)'
                  % (l, l, l, l))
        items.append(("c%d" % i, ex))
    return items


def unq(s):
    s = s.strip()
    if s.endswith("%string"):
        s = s[:-7]
    return s[1:-1].replace('""', '"') if s.startswith('"') else s


def has_edit(trees):
    for t in trees:
        if G.key(t) == "edit":
            return True
        if G.key(t) == "actor" and t[0] == "L" and any(G.key(x) == "edit" for x in t[2]):
            return True
    return False


def edit_names(trees):
    """does some edit option of the list (or of a member) name methods / traits?  (whether they exist is C15's rule, not C19's)"""
    def named(t):
        if t[0] != "L":
            return False
        if t[1] in (["imp"], ["trt"]) and t[2]:
            return True
        return any(named(x) for x in t[2])
    for t in trees:
        if G.key(t) == "edit" and named(t):
            return True
        if G.key(t) == "actor" and t[0] == "L" and any(G.key(x) == "edit" and named(x) for x in t[2]):
            return True
    return False


def run(rep):
    rng = random.Random(rep.seed)
    rep.extra["rule"] = RULE
    quick = rep.tier == "quick"
    # ---- 1. theorems
    nthm, problems, _ = property_theorems(PID)
    rep.checker_cmds.append("make -C coq theories/Properties/C19.vo (Print Assumptions must be closed)")
    for _ in range(max(nthm, 1)):
        rep.oblige(not problems)
    bad = hygiene()
    rep.oblige(not bad)
    if problems or bad:
        rep.violation("theorems", {"what": "property theorem file no longer checks", "problems": problems, "hygiene": bad}, found=False)
    files = G.sandbox(os.path.join(hook.WORK, "c19_sandbox"))

    # ---- 2. tie A corpus
    cases = []   # (kind, trees, origin)
    nv = 220 if quick else 2500
    for _ in range(nv):
        cases.append(("actor", G.gen_actor_opts(rng, files), "valid"))
        cases.append(("family", G.gen_family_opts(rng, files), "valid"))
    for _ in range(nv // 3):
        cases.append(("example", G.gen_example_opts(rng, files), "valid"))
    cases += [(k, t, "mut:" + r) for k, t, r in mutations(rng, files, 500 if quick else 6000)]
    for _ in range(250 if quick else 3000):
        k = rng.choice(["actor", "actor", "family", "example"])
        ts = [random_tree(rng) for _ in range(rng.randint(1, 4))]
        if k == "family" and rng.random() < 0.7:
            ts.append(G.L("actor", G.NV("first_name", G.S(rng.choice(G.FIRST_NAMES + G.BAD_NAMES))), *[random_tree(rng, 1) for _ in range(rng.randint(0, 2))]))
        if k == "example" and rng.random() < 0.7:
            ts.append(G.NV("path", G.S(files[rng.choice(["one", "missing"])])))
        cases.append((k, ts, "random"))
    for _ in range(60 if quick else 600):   # example mutations
        o = G.gen_example_opts(rng, files)
        r = rng.random()
        if r < 0.25:
            o = [x for x in o if G.key(x) != "path"]
        elif r < 0.5:
            o.append(rng.choice([G.P("bogus"), G.NV("main", G.I(5)), G.L("expand", G.P("group")), G.L("expand", G.L("actor", G.P("x"))), G.P("expand"), G.NV("expand", G.S("actor")),
                                 G.NV("path", G.S(files["missing"])), G.P("path"), G.NV("path", G.I(1))]))
        elif r < 0.7:
            o.append(rng.choice(o))
        cases.append(("example", o, "mut:example"))
    cases += small_scopes(files, rng, rep.tier)
    # rule battery: for every documented rule minimal inputs violating exactly that rule (and nothing doc-silent), plus valid twins
    mem = G.L("actor", G.NV("first_name", G.S("U")))
    battery = [
        ("actor", [G.P("bogus")]), ("actor", [G.NV("chanel", G.I(2))]), ("family", [G.P("bogus"), mem]), ("family", [G.L("actor", G.NV("first_name", G.S("U")), G.P("bogus"))]),
        ("actor", [G.P("debut"), G.P("debut")]), ("actor", [G.NV("channel", G.I(1)), G.NV("channel", G.I(2))]), ("family", [G.P("show"), G.P("show"), mem]),
        ("family", [G.L("actor", G.NV("first_name", G.S("U")), G.P("show"), G.P("show"))]), ("family", [mem, mem]), ("family", [mem, G.L("actor", G.NV("first_name", G.S("V")))]),
        ("actor", [G.NV("channel", G.S("2"))]), ("actor", [G.NV("lib", G.S("Tokio"))]), ("actor", [G.NV("name", G.I(1))]), ("actor", [G.L("show", G.P("x"))]), ("actor", [G.NV("debut", G.I(1))]),
        ("actor", [G.NV("interact", G.I(1))]), ("actor", [G.P("include")]), ("actor", [G.NV("file", G.S(files["missing"]))]), ("actor", [G.NV("channel", G.I(-1))]),
        ("actor", [G.NV("channel", G.I(G.USIZE_MAX))]), ("actor", [G.NV("channel", G.I(G.USIZE_MAX + 1))]), ("actor", [G.NV("channel", G.I(1))]), ("actor", [G.NV("channel", G.I(0))]),
        ("actor", [G.L("include", G.P("inc")), G.L("exclude", G.P("get"))]), ("actor", [G.L("exclude", G.P("get")), G.L("include", G.P("inc"))]),
        ("actor", [G.L("include", G.P("inc"), G.P("inc"))]), ("actor", [G.L("include", G.P("new"))]), ("actor", [G.L("include", G.P("try_new"))]), ("actor", [G.L("exclude", G.P("inc"), G.P("try_new"))]),
        ("actor", [G.L("exclude", G.P("new"))]), ("actor", [G.L("include", G.P("inc"), G.P("get"))]), ("actor", [G.L("exclude")]),
        ("family", [G.NV("lib", G.S("smol")), mem]), ("family", [G.NV("lib", G.S("tokio")), mem]), ("family", [G.NV("lib", G.S("async_std")), mem]), ("family", [G.NV("lib", G.S("std")), mem]),
        ("family", []), ("family", [G.P("debut")]), ("family", [G.P("actor")]), ("family", [G.L("actor")]), ("family", [G.L("actor", G.NV("channel", G.I(1)))]),
        ("family", [G.L("actor", G.NV("first_name", G.S("")))]), ("family", [G.P("interact"), mem]), ("family", [G.L("include", G.P("inc")), mem]), ("family", [G.NV("first_name", G.S("X")), mem]),
        ("family", [G.P("Mutex"), mem]), ("family", [G.P("RwLock"), mem]), ("family", [G.P("Mutex"), G.P("RwLock"), mem]), ("family", [G.P("RwLock"), G.P("Mutex"), mem]), ("family", [mem]),
        ("family", [G.P("show"), mem]), ("family", [G.P("show"), G.L("actor", G.NV("first_name", G.S("U")), G.P("show"))]), ("family", [G.P("debut"), mem]),
        ("family", [G.NV("channel", G.I(3)), G.L("actor", G.NV("first_name", G.S("U")), G.NV("channel", G.I(1)))]), ("family", [G.NV("channel", G.I(3)), mem]),
        ("family", [G.NV("name", G.S("Z")), mem]), ("family", [G.L("actor", G.NV("first_name", G.S("U")), G.P("interact"))]),
        ("actor", [G.NV("first_name", G.S("U"))]), ("actor", [G.P("Mutex")]), ("actor", [G.L("actor", G.NV("first_name", G.S("U")))]), ("actor", [G.P("debug")]), ("family", [G.P("debug"), mem]),
        ("actor", [G.L("edit", G.P("file"))]), ("actor", [G.L("edit", G.P("file")), G.NV("file", G.S(files["one"]))]), ("actor", [G.L("edit", G.P("file")), G.NV("file", G.S(files["two"]))]),
        ("actor", [G.L("edit", G.P("file")), G.NV("file", G.S(files["none"]))]), ("actor", [G.L("edit", G.L("live", G.L("imp", G.L("file", G.P("inc")))))]),
        ("actor", [G.L("edit", G.L("live", G.L("imp", G.L("file", G.P("inc"))))), G.NV("file", G.S(files["one"]))]), ("actor", [G.L("edit", G.P("live")), G.NV("file", G.S(files["one"]))]),
        ("actor", [G.L("edit", G.L("file", G.L("script", G.L("file", G.P("def"))))), G.NV("file", G.S(files["one"]))]), ("actor", [G.L("edit", G.P("script"), G.P("script"))]),
        ("actor", [G.L("edit", G.L("live", G.P("def"), G.P("def")))]), ("actor", [G.L("edit", G.P("bogus"))]), ("actor", [G.L("edit", G.L("live", G.P("bogus")))]),
        ("actor", [("P", ["a", "b"])]), ("actor", [("NV", ["", "name"], G.S("B"))]),
        ("example", [G.NV("path", G.S(files["one"]))]), ("example", []), ("example", [G.P("main")]), ("example", [G.NV("path", G.S(files["missing"]))]), ("example", [G.NV("path", G.I(1))]),
        ("example", [G.NV("path", G.S(files["one"])), G.NV("path", G.S(files["one"]))]), ("example", [G.NV("path", G.S(files["one"])), G.L("expand", G.P("group"))]),
        ("example", [G.NV("path", G.S(files["one"])), G.P("expand")]), ("example", [G.NV("path", G.S(files["one"])), G.L("expand", G.P("actor"), G.P("family"))]),
        ("example", [G.NV("path", G.S(files["one"])), G.L("expand")]), ("example", [G.NV("path", G.S(files["one"])), G.P("main"), G.P("main")]),
    ]
    cases += [(k, t, "rule") for k, t in battery]
    # name classes
    for nmv in G.GOOD_NAMES + G.BAD_NAMES:
        cases.append(("actor", [G.NV("name", G.S(nmv))], "name"))
        cases.append(("family", [G.L("actor", G.NV("first_name", G.S(nmv)))], "name"))
    # inputs of the former known-finding classes (regression)
    cases += regression_inputs(files)

    jobs = []
    for kind, trees, _ in cases:
        if kind == "example":
            jobs.append(("fn:example_args", ["", G.rust_list(trees)]))
        else:
            jobs.append(("fn:attr_args", ["", kind, G.rust_list(trees)]))
    real = hook.run_parallel(jobs, tag="c19a", shards=12)
    if real is None:
        raise Infra("attr_args batch timed out")
    vals = {}
    items = coq_items(cases)
    from concurrent.futures import ThreadPoolExecutor
    with ThreadPoolExecutor(6) as ex:     # one coqc process per batch of 800 cases
        for part in ex.map(lambda b: inst.coq_values("C19_cases_%d" % (b // 800), IMPORTS, items[b:b + 800], defs=G.coq_fs(files)), range(0, len(items), 800)):
            vals.update(part)
    rep.checker_cmds.append("coqc generated/C19_cases_*.v (model, validator and denotation evaluated by vm_compute)")

    accepted_for_b = []
    n_mis = 0
    pending = []
    for i, ((kind, trees, origin), (rc, rf)) in enumerate(zip(cases, real)):
        rep.evaluations += 1
        attr = G.rust_list(trees)
        if rc == "VALUE" and rf and rf[0] == "SYNERR":
            # the text is not a Meta list for syn (e.g. `x = 1 + 1` is one); the entry points answer with a syn error
            rep.count("class", "syn-error")
            continue
        real_s = ("OK " + rf[0]) if rc == "VALUE" else rc
        mod_s, flags, den = unq(vals["c%d" % i]).split("|", 2)
        valid, silent = [c == "1" for c in flags]
        cls = real_s.split()[0]
        rep.count("macro", kind)
        rep.count("class", cls)
        rep.count("origin", origin.split(":")[0])
        for t in trees:
            rep.count("option", G.key(t) if len(G.key(t)) < 14 else "other")
        rep.nontrivial.add((kind, tuple(sorted(G.key(t) for t in trees))[:6], cls))
        if i % 397 == 0:
            rep.sample({"macro": kind, "attr": attr[:300], "real": real_s[:200], "model": mod_s[:200], "valid": valid})
        ok_corr = rep.oblige(real_s == mod_s)
        # oracle: the documented validator and denotation, on the REAL output
        oracle_applies = not silent
        oracle_ok = True
        if oracle_applies:
            if (cls == "OK") != valid or cls == "PANIC":
                oracle_ok = False
            elif cls == "OK" and kind != "example" and rf[0] != den:
                oracle_ok = False
            rep.oblige(oracle_ok)
        if cls == "OK" and kind != "example" and ok_corr:
            accepted_for_b.append((kind, trees, rf[0]))
        if ok_corr and oracle_ok:
            continue
        n_mis += 1
        data = {"macro": kind, "attr": attr, "origin": origin, "real": real_s, "model": mod_s, "validator_says_valid": valid, "documented_meaning": den,
                "replay": "hook job fn:attr_args ['', %r, %r]" % (kind, attr)}
        if oracle_applies and not oracle_ok:
            data["what"] = ("real option parser contradicts the documented rules: " +
                            ("panicked" if cls == "PANIC" else "accepted an invalid configuration" if cls == "OK" and not valid else
                             "rejected a valid configuration" if cls != "OK" and valid else "accepted configuration differs from the documented meaning of the options"))
            pending.append((0, len(attr), "options_%d" % i, data, True))
        else:
            data["what"] = "model and real parser differ on an input where the documentation is silent; correspondence of Gen/Attr.v no longer checks"
            pending.append((1, len(attr), "correspondence_%d" % i, data, False))
    # concrete failing inputs first, shortest first; at most 8 replay files
    for _, _, name, data, found in sorted(pending, key=lambda x: x[:3])[:8]:
        data["mismatching_cases_in_this_run"] = n_mis
        rep.violation(name, data, found=found)

    # ---- 3. edit grammar: independent validators (written from the docs) vs the real parser, in the three positions of `edit`
    ecases = []          # (position, edit tree)
    f1 = G.NV("file", G.S(files["one"]))
    for _ in range(150 if quick else 2500):
        ecases.append(("actor", G.gen_edit_actor(rng, True)))
        ecases.append(("actor", G.L("edit", *[random_edit(rng) for _ in range(rng.randint(0, 3))])))
        ecases.append(("member", G.gen_edit_actor(rng, True)))
        ecases.append(("member", G.L("edit", *[random_edit(rng) for _ in range(rng.randint(0, 3))])))
        ecases.append(("family", G.gen_edit_family(rng, True)))
        ecases.append(("family", G.L("edit", *[random_edit(rng, 1) for _ in range(rng.randint(0, 3))])))
    fixed_edits = [G.L("edit", G.L("file", G.L("script", G.L("file", G.P("def"))))), G.L("edit", G.L("script"), G.P("script")), G.L("edit", G.P("script"), G.P("script")),
                   G.L("edit", G.L("live", G.P("def"), G.P("def"))), G.L("edit", G.L("live", G.L("imp", G.P("inc"), G.P("inc")))), G.L("edit", G.P("live"), G.L("file", G.P("live"))),
                   G.L("edit", G.P("file"), G.P("live")), G.L("edit", G.L("live", G.L("imp", G.L("file", G.L("file", G.P("a")))))), G.L("edit"), G.L("edit", G.L("script")),
                   G.L("edit", G.L("live", G.L("imp"))), G.L("edit", G.L("file")), G.L("edit", G.L("live", G.L("def", G.P("x")))), G.L("edit", G.L("live", G.L("imp", G.NV("inc", G.I(1))))),
                   G.P("edit"), G.L("edit", G.P("file")), G.L("edit", G.P("script"), G.P("live")), G.L("edit", G.L("live", G.P("imp")))]
    ecases += [("actor", e) for e in fixed_edits] + [("member", e) for e in fixed_edits]
    ecases += [("family", e) for e in [G.L("edit"), G.L("edit", G.P("def"), G.P("imp")), G.L("edit", G.P("def"), G.P("def")), G.L("edit", G.L("file", G.P("def")), G.P("imp")),
                                       G.L("edit", G.L("file", G.L("file", G.P("def")))), G.L("edit", G.L("imp", G.L("file", G.P("new")))), G.L("edit", G.L("file", G.L("imp", G.L("file", G.P("new"))))),
                                       G.L("edit", G.L("imp")), G.L("edit", G.L("def", G.P("x"))), G.L("edit", G.P("bogus")), G.L("edit", G.P("file")), G.P("edit"), G.L("edit", G.L("file"))]]
    ejobs = []
    for pos, e in ecases:
        if pos == "actor":
            ejobs.append(("fn:attr_args", ["", "actor", G.rust_list([e, f1])]))
        elif pos == "member":
            ejobs.append(("fn:attr_args", ["", "family", G.rust_list([f1, G.L("actor", G.NV("first_name", G.S("U")), e)])]))
        else:
            ejobs.append(("fn:attr_args", ["", "family", G.rust_list([e, f1, G.L("actor", G.NV("first_name", G.S("U")))])]))
    eres = hook.run_parallel(ejobs, tag="c19e", shards=12)
    n_edit_bad = 0
    for (pos, e), (kindj, fj), (rc, rf) in zip(ecases, ejobs, eres):
        rep.evaluations += 1
        if pos == "family":
            dv = doc_family_edit_valid(e)
            if e[0] == "L" and any(x[1] in (["script"], ["live"]) or (x[1] == ["file"] and x[0] == "L" and any(y[1] in (["script"], ["live"]) for y in x[2])) for x in e[2]):
                rep.count("edit", "family-doc-conflict")
                continue      # lib.rs and AVAIL_FAMILY disagree about edit(live(..)) at family level
        else:
            dv = doc_edit_valid(e)
        rep.count("edit", pos + (":valid" if dv else ":invalid"))
        acc = rc == "VALUE"
        if not rep.oblige(acc == dv and rc != "PANIC"):
            n_edit_bad += 1
            if n_edit_bad > 6:
                continue
            rep.violation("edit_grammar_%d" % len(rep.violations), {
                "what": "edit grammar (%s position): real parser %s what the documented grammar says is %s" % (pos, "accepts" if acc else "rejects", "valid" if dv else "invalid"),
                "macro": fj[1], "attr": fj[2], "real": rc + " " + (rf[0][:300] if rf else "")}, found=True)

    # ---- 4. tie B: end to end with a fixed impl block
    bcases = []
    def filters_known(dump):
        top, mems = parse_dump(dump)
        for f in [top] + [m for _, m in mems]:
            if f["x"] != "-" and not set(a for a in f["x"][2:].split(",") if a) <= set(G.METHODS):
                return False       # a filter naming a method the fixed impl does not have is rejected later (method-level rule, section 5)
        return True
    pool = [c for c in accepted_for_b if not parse_dump(c[2])[0]["at"] == "1" and not edit_names(c[1]) and filters_known(c[2])]
    rng.shuffle(pool)
    for kind, trees, dump in pool[:(160 if quick else 1500)]:
        bcases.append((kind, trees, dump, "TOKENS"))
    rej = [(k, t) for (k, t, o), (rc, rf) in zip(cases, real) if k != "example" and rc == "DIAG"]
    rng.shuffle(rej)
    for kind, trees in rej[:(60 if quick else 500)]:
        bcases.append((kind, trees, None, "DIAG"))
    bjobs = []
    for kind, trees, dump, want in bcases:
        heavy = kind == "actor" and dump is not None and parse_dump(dump)[0]["i"] == "1"
        bjobs.append((kind, [G.rust_list(trees), FIXED_IMPL % (HEAVY if heavy else "")]))
    bres = hook.run_parallel(bjobs, tag="c19b", shards=12) if bjobs else []
    for (kind, trees, dump, want), (rc, rf) in zip(bcases, bres):
        rep.evaluations += 1
        attr = G.rust_list(trees)
        rep.count("end-to-end", rc)
        if not rep.oblige(rc == want):
            rep.violation("entry_%d" % len(rep.violations), {
                "what": "entry point `%s` answers %s where the option parser model (and the real option parser) say %s" % (kind, rc, want),
                "attr": attr, "item": FIXED_IMPL % "", "output": (rf[0][:1500] if rf else "")}, found=True)
            continue
        if rc != "TOKENS" or has_edit(trees):
            continue
        top, mems = parse_dump(dump)
        exp = expected_models(kind, top, mems)
        got = reflect(rf[0])
        diffs = []
        if len(got["models"]) != len(exp):
            diffs.append("models %s vs %s" % ([m["name"] for m in got["models"]], [m["name"] for m in exp]))
        for g, e in zip(got["models"], exp):
            for fld in ("name", "ctor", "cap", "debug", "debut"):
                if g[fld] != e[fld]:
                    diffs.append("%s.%s: emitted %r, options say %r" % (e["name"], fld, g[fld], e[fld]))
            if (g["methods"] & set(G.METHODS)) != e["methods"]:
                diffs.append("%s.methods: emitted %s, filter says %s" % (e["name"], sorted(g["methods"] & set(G.METHODS)), sorted(e["methods"])))
        if kind == "family":
            if got["lock"] != {"R": "RwLock", "M": "Mutex"}.get(top["r"]):
                diffs.append("lock: emitted %s, options say %s" % (got["lock"], top["r"]))
            if got["family"] != (top["n"] if top["n"] != "-" else "A"):
                diffs.append("family name: emitted %s" % got["family"])
            want_show = top["s"] == "1" or any(f["s"] == "1" for _, f in mems)
        else:
            want_show = top["s"] == "1"
            if top["i"] == "1" and not got["models"][0]["heavy_ret"] and "heavy" in exp[0]["methods"] | got["models"][0]["methods"]:
                diffs.append("interact: live method `heavy` does not return the receiving end")
        if got["show"] != want_show:
            diffs.append("show: docs emitted=%s, option says %s" % (got["show"], want_show))
        rep.nontrivial.add(("B", kind, top["l"], top["c"] != "u", top["d"], top["g"], top["x"][:1], len(mems)))
        if not rep.oblige(not diffs):
            rep.violation("reflection_%d" % len(rep.violations), {
                "what": "an accepted option is not reflected in the emitted code with its documented meaning", "attr": attr, "item": FIXED_IMPL % "",
                "differences": diffs, "configuration": dump}, found=True)

    # ---- 5. method-level rules
    mj = method_rule_jobs(rng, rep.tier)
    mres = hook.run_parallel([(k, [a, it]) for _, k, a, it, _, _ in mj], tag="c19m", shards=12)
    for (rule, kind, attr, item, want, known), (rc, rf) in zip(mj, mres):
        rep.evaluations += 1
        rep.count("method-rule", rule)
        rep.nontrivial.add(("M", rule, kind))
        if not rep.oblige(rc == want):
            rep.violation("method_rule_%s_%d" % (rule, len(rep.violations)), {
                "what": "method-level rule `%s`: expected %s, the macro answered %s" % (rule, want, rc), "macro": kind, "attr": attr, "item": item,
                "output": (rf[0][:1200] if rf else "")}, found=True)

    # ---- 6. example end to end (sandbox cwd; the macro always ends in a compile_error!, success is told by its text)
    sb = os.path.join(hook.WORK, "c19_example_%d" % os.getpid())
    os.makedirs(os.path.join(sb, "src"), exist_ok=True)
    open(os.path.join(sb, "src", "main.rs"), "w").write("pub struct A;\n#[interthread::actor]\nimpl A {\n    pub fn new() -> Self { Self }\n    pub fn inc(&mut self) {}\n}\nfn main() {}\n")
    ex = [('path = "src/main.rs"', True), ('path = "src/main.rs", main', True), ('path = "src/main.rs", expand(actor)', True), ("main", False), ('path = "src/nope.rs"', False),
          ('path = "src/main.rs", path = "src/main.rs"', False), ('path = "src/main.rs", expand(group)', False), ("", False), ('path = 5', False)]
    xres = hook.run_batch([("example", [a, "fn main() {}", "", sb]) for a, _ in ex], tag="c19x")
    for (a, want), (rc, rf) in zip(ex, xres):
        rep.evaluations += 1
        okx = rc == "DIAG" and ("SUCCESSFULLY" in rf[0]) == want
        if want:
            okx = okx and os.path.exists(os.path.join(sb, "examples", "inter", "main.rs"))
        if not rep.oblige(okx):
            rep.violation("example_%d" % len(rep.violations), {"what": "example(%s): expected %s" % (a, "the example file to be written" if want else "a diagnostic and no file"),
                                                              "class": rc, "output": rf[0][:800] if rf else ""}, found=True)
    import shutil
    shutil.rmtree(sb, ignore_errors=True)

    # ---- 7. no known-finding class remains for C19; a `finding:` line for C19 in known_findings.txt would be stale
    stale = [f for f in known_findings()["finding"] if f.get("property") == PID]
    if stale:
        rep.notes.append("known_findings.txt still lists C19 classes that the check no longer recognises: %s" % [f.get("class") for f in stale])

    rep.assumptions += [
        "ASCII option values; `name` / `first_name` strings are not Rust keywords, `_` or raw identifiers (format_ident! is modelled on [A-Za-z_][A-Za-z0-9_]*)",
        "attribute text that syn does not parse as a comma separated Meta list (e.g. `x = 1 + 1` parses, `1 2` does not) is outside the corpus of tie A",
        "files named by `file` / `path` parse as Rust source; fexists / fcount are realised by three sandbox files (one / two / zero file-active macros) and a missing path",
        "the inner grammar of edit(..) is delegated to the model's edit parsers inside valid_*; it is checked against independent validators of the documented grammar (doc_edit_valid, doc_family_edit_valid) on the real parser in the actor, member and family position",
        "documentation-silent zones (Debug; lib / name / debut / file inside a member; a family-level edit mentioning script / live, where lib.rs and AVAIL_FAMILY disagree) are compared model-vs-real only, the oracle is silent there",
        "tie B uses one fixed impl block (4 public methods + constructor), all runtime crates declared in the manifest; configurations with active file markers are not expanded (they rewrite the source file: C16/C17)",
    ]
