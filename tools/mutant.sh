#!/bin/bash
# usage: mutant.sh <seed id> <check id> [tier]   -- apply seeded patch to /repo, run a check, revert
cd /verif
git -C /repo apply /verif/seeded/$1/patch.diff || exit 9
./check $2 --tier ${3:-quick} > /tmp/mutant_$1_$2.log 2>&1; rc=$?
git -C /repo checkout -- . 
echo "seed=$1 check=$2 exit=$rc"; grep -c "^VIOLATION" /tmp/mutant_$1_$2.log; grep "^VIOLATION" /tmp/mutant_$1_$2.log | head -3; tail -1 /tmp/mutant_$1_$2.log
