(* C20 -- after the actor dies, calls fail loudly: never hang, never silently vanish.  Statements only. *)
From Coq Require Import List Arith Bool.
Import ListNotations.
From IT Require Import Sdpl.IR Sdpl.Elab Sdpl.Wf Runtime.Actor Runtime.ActorInv Runtime.InvDefs Runtime.InvDefs2 Runtime.InvSeq
  Runtime.Combined Runtime.InvFault2 Runtime.InvUnblock Runtime.Explore.

Section C20.
Context {A V : Type} (sem : nat -> A -> list V -> option (A * V)) (sem_slf : nat -> A -> list V -> V) (dv : V).
Notation run := (run sem sem_slf dv).
Notation step := (step sem sem_slf dv).

(* no caller blocks forever: in every reachable state in which the actor is dead (a user method panicked at any point of
   any schedule, a reply failed on an abandoned call, or the loop ended otherwise), every caller that is inside a call -
   sending, blocked on a full queue, or waiting for its reply - has an enabled step.  Needs a channel whose receiver
   discards queued messages when dropped (std, tokio) or a play that holds the drain guard (async_std, smol): C20_drain_iff. *)
Theorem C20_no_hang : forall (m : model), wf_C20 m = true -> r_drain (elab m) = true ->
  forall a0 progs sched, let s := run (elab m) a0 progs sched in
  alive s = false -> forall t cl, nth_error (clients s) t = Some cl -> in_call (c_pc cl) -> step (elab m) s (Cl t) <> None.
Proof. intros m _ D a0 progs sched. exact (no_hang_reachable sem sem_slf dv (elab m) a0 progs sched D). Qed.

(* ... and that step ends the call with a panic, unless the reply had already been produced before the actor died
   (then the caller gets exactly that value); a call is never completed with a normal return otherwise:
   no `RetUnit` (silently discarded fire-and-forget), no fabricated value *)
Theorem C20_loud : forall (m : model), wf_C20 m = true ->
  forall s t s' c o, alive s = false -> step (elab m) s (Cl t) = Some s' -> new_outcome s s' t c o ->
  o = Panicked \/ o = Refused \/ (exists v, o = Returned v /\ slot_get (slots s) c = Some (SFull v))
  \/ (exists a k vs, o = Consumed (sem_slf k a vs) /\ slot_get (slots s) c = Some (SActor a)).
Proof.
  intros m W s t s' c o Al H N. apply (dead_loud sem sem_slf dv (elab m) s t s' c o Al); auto.
  unfold wf_C20 in W. repeat (apply andb_prop in W; destruct W as [W ?]). assumption.
Qed.

(* a value a caller receives is the value produced by the execution of its own call *)
Theorem C20_no_fabrication : forall (m : model), wf_C20 m = true ->
  forall a0 progs sched, let s := run (elab m) a0 progs sched in
  forall t cl c v, nth_error (clients s) t = Some cl -> In (c, Returned v) (c_rets cl) ->
  fst c = t /\ exists callee args, In (c, callee, args, v) (applied s).
Proof.
  intros m W a0 progs sched. apply own_reply.
  unfold wf_C20 in W. repeat (apply andb_prop in W; destruct W as [W ?]).
  unfold loud in *. rewrite forallb_forall in *. intros rm Hin.
  match goal with L : forall x, In x _ -> rm_loud_send x && rm_loud_wait x = true |- _ => specialize (L rm Hin); apply andb_prop in L; apply L end.
Qed.
(* a caller blocked on a full bounded queue while a self-consuming method's stop message reaches the head: the play returns with
   the actor (moved once), and the blocked caller's very next step ends its call with a panic - recorded as lost, never enqueued,
   never left waiting on a queue nobody will read *)
Theorem C20_blocked_released_by_stop : forall (m : model), wf_C20 m = true -> r_stop_first (elab m) = true ->
  forall s c0 q a t cid k vs ab rm,
  alive s = true -> busy s = None -> queue s = MStop c0 :: q -> actor s = Some a ->
  at_send s t cid k vs ab -> meth (elab m) k = Some rm ->
  exists s1 s2 cl, step (elab m) s Ac = Some s1 /\ alive s1 = false /\ exited s1 = Some Stopped /\ moved s1 = S (moved s)
    /\ step (elab m) s1 (Cl t) = Some s2
    /\ nth_error (clients s2) t = Some cl /\ c_pc cl = Dead /\ In (cid, Panicked) (c_rets cl)
    /\ lost s2 = lost s ++ [cid] /\ enq s2 = enq s.
Proof.
  intros m W SF s c0 q a t cid k vs ab rm Al B Q Ha Hat Hm.
  apply (stop_releases_blocked sem sem_slf dv (elab m) s c0 q a t cid k vs ab rm); auto.
  unfold wf_C20 in W. repeat (apply andb_prop in W; destruct W as [W ?]).
  unfold loud in *. rewrite forallb_forall in *. unfold meth in Hm.
  match goal with L : forall x, In x _ -> rm_loud_send x && rm_loud_wait x = true |- _ =>
    specialize (L rm (nth_error_In _ _ Hm)); apply andb_prop in L; apply L end.
Qed.
End C20.

(* Which instances have a draining receiver: std and tokio receivers discard their queue when dropped; on the async-channel
   runtimes (async_std, smol) the generated play must hold the drain guard on its own receiver (repair e47f24b).  So C20_no_hang
   applies to every instance of the four runtimes whose play has the recognised shape. *)
Theorem C20_drain_iff : forall (m : model),
  r_drain (elab m) = match m_lib m with Std | Tokio => true | _ => drain_guard m end.
Proof. reflexivity. Qed.

(* FIXED DEFECT (was: known finding async-channel-buffered-reply): when the receiver does not discard queued messages
   (r_drain = false: async_std / smol without the guard), a value-returning call that is buffered when the actor dies is never
   answered and its caller blocks forever.  Witness: client 0 makes the method panic, client 1's call is queued behind it.
   Kept as the reason for the premise of C20_no_hang: a change that removes the guard falls back into this case. *)
Definition m_nodrain : rmodel :=
  {| r_cap := None;
     r_meths := [ {| rm_reply := true; rm_send := SBlocking; rm_loud_send := true; rm_loud_wait := true; rm_fields := [0]; rm_args := [0];
                     rm_callee := 0; rm_reply_own := true; rm_loud_reply := true; rm_msg := true |} ];
     r_clonable := true; r_guard := true; r_stop_first := true; r_drain := false |}.
Definition s_hung := run0 m_nodrain 0 [([Call 0 [999]], 1); ([Call 0 [5]], 1)] [Cl 0; Cl 0; Cl 1; Cl 1; Ac; Ac].
Theorem C20_no_hang_refuted_without_drain :
  r_drain m_nodrain = false /\ loud m_nodrain = true /\ alive s_hung = false
  /\ (exists cl, nth_error (clients s_hung) 1 = Some cl /\ in_call (c_pc cl))
  /\ Actor.step sem0 sem_slf0 0 m_nodrain s_hung (Cl 1) = None.
Proof. vm_compute. repeat split; auto. eexists; split; [reflexivity|exact I]. Qed.
(* the same schedule on a draining channel ends with a panic *)
Example C20_same_schedule_with_drain :
  let m := {| r_cap := None; r_meths := r_meths m_nodrain; r_clonable := true; r_guard := true; r_stop_first := true; r_drain := true |} in
  let s := run0 m 0 [([Call 0 [999]], 1); ([Call 0 [5]], 1)] [Cl 0; Cl 0; Cl 1; Cl 1; Ac; Ac; Cl 1] in
  match nth_error (clients s) 1 with Some cl => c_rets cl = [((1, 0), Panicked)] | None => False end.
Proof. vm_compute. reflexivity. Qed.

Print Assumptions C20_no_hang.
Print Assumptions C20_loud.
Print Assumptions C20_no_fabrication.
Print Assumptions C20_blocked_released_by_stop.
Print Assumptions C20_drain_iff.
Print Assumptions C20_no_hang_refuted_without_drain.
