(* Statements for C20 (faults), C09 (hand-over), C04 (draining shutdown). Definitions only. *)
From Coq Require Import List Arith Bool Lia.
Import ListNotations.
From IT Require Import Runtime.Actor Runtime.Lists Runtime.InvDefs Runtime.InvSeq.

Section Defs2.
Context {A V : Type}.
Variable sem : nat -> A -> list V -> option (A * V).
Variable sem_slf : nat -> A -> list V -> V.
Variable dv : V.
Notation st := (@st A V).

Definition has_reply (m : rmodel) (x : @msg V) :=
  match x with Msg _ k _ => exists rm, meth m k = Some rm /\ rm_reply rm = true | MStop _ => True end.

(* an empty oneshot belongs to a message that is still queued or being executed *)
Definition empty_ok (m : rmodel) (s : st) :=
  forall c, slot_get (slots s) c = Some SEmpty ->
    exists x, (In x (queue s) \/ busy s = Some x) /\ msg_id x = c /\ has_reply m x.

(* callers inside a call know their method and, when waiting, own a oneshot *)
Definition wait_ok (m : rmodel) (s : st) := forall t cl, nth_error (clients s) t = Some cl ->
  (forall c k, c_pc cl = Waiting c k -> (exists rm, meth m k = Some rm) /\ slot_get (slots s) c <> None) /\
  (forall c k vs, c_pc cl = StopWait c k vs -> slot_get (slots s) c <> None) /\
  (forall c k vs ab, c_pc cl = Sending c k vs ab -> exists rm, meth m k = Some rm).

Definition in_call (p : @pc V) := match p with Ready | Dead => False | _ => True end.

(* the outcome recorded by one client step *)
Definition new_outcome (s s' : st) (t : nat) (c : callid) (o : @outcome V) :=
  exists cl cl', nth_error (clients s) t = Some cl /\ nth_error (clients s') t = Some cl' /\ c_rets cl' = c_rets cl ++ [(c, o)].

Definition loud (m : rmodel) := forallb (fun rm => rm_loud_send rm && rm_loud_wait rm) (r_meths m).

(* the actor value handed to a self-consuming method is the sequential state after every executed call *)
Definition handover_ok (a0 : A) (s : st) :=
  forall c a, slot_get (slots s) c = Some (SActor a) -> Replay sem a0 (applied s) a /\ exited s = Some Stopped.

(* the sender count is the number of live handles *)
Definition senders_ok (s : st) := senders s = list_sum (map c_nh (clients s)).

Definition only_calls (l : list (@msg V)) := forall x, In x l -> exists c k fs, x = Msg c k fs.
Definition pending (s : st) : list (@msg V) := (match busy s with Some x => [x] | None => [] end) ++ queue s.
End Defs2.
