"""T-tie: real expansions -> Coq instances of IT.Sdpl.IR.model -> wf premises evaluated / proved by coqc."""
import os, re, random, json
import hook, ir, coqgen, gen_impl
from common import *


def expand_configs(configs, tag="inst"):
    """configs: list of dict(kind, attr, item, lib, label). Adds 'class', 'text', 'models' (recognised)"""
    jobs = [(c["kind"], [c["attr"], c["item"]]) for c in configs]
    res = hook.run_parallel(jobs, tag=tag, shards=12)
    if res is None:
        raise Infra("expansion batch timed out")
    for c, (cls, fields) in zip(configs, res):
        c["class"] = cls
        c["text"] = fields[0] if fields else ""
        c["ex"] = None
        if cls == "TOKENS":
            try:
                c["ex"] = ir.parse_expansion(c["text"])
            except Exception as e:  # lexer / recogniser failure: nothing recognised
                c["ex"] = None
                c["parse_error"] = repr(e)
    return configs


def coq_models(c):
    """Coq terms (name, term) of every model of a recognised expansion"""
    out = []
    ex = c["ex"]
    if ex is None:
        return out
    extra = list(ex["unknown"])
    for i, mdl in enumerate(ex["models"]):
        try:
            term = coqgen.model(mdl, c["lib"], c.get("actor_ty", "A"), ex["roots"], extra)
        except Exception as e:
            term = None
            c.setdefault("render_errors", []).append(repr(e))
        out.append(term)
    return out


HEADER = "From Coq Require Import List String NArith Bool.\nImport ListNotations.\nFrom IT Require Import Sdpl.IR Sdpl.Elab Sdpl.Wf Runtime.Actor Runtime.ActorInv.\nOpen Scope string_scope.\n"


def coq_eval(pid, terms, funs, extra_imports="", per_inst_args=None):
    """terms: list of Coq model terms; funs: list of (tag, coq expression with {i} for the instance [and {a} for per-instance arg]).
    Returns (list per term of dict tag -> printed value (str)), module name."""
    os.makedirs(GEN, exist_ok=True)
    mod = "%s_inst" % pid
    path = os.path.join(GEN, mod + ".v")
    lines = [HEADER, extra_imports]
    for k, t in enumerate(terms):
        lines.append("Definition inst_%d : model := %s." % (k, t))
    for k in range(len(terms)):
        for tag, ex in funs:
            a = per_inst_args[k] if per_inst_args else ""
            lines.append("Definition r_%d_%s := Eval vm_compute in (%s)." % (k, tag, ex.format(i="inst_%d" % k, a=a)))
            lines.append("Print r_%d_%s." % (k, tag))
    open(path, "w").write("\n".join(lines) + "\n")
    rc, out = coqc(path)
    if rc != 0:
        raise Infra("generated instance file rejected by coqc (translator bug?):\n" + out[-3000:])
    results = [dict() for _ in terms]
    for m in re.finditer(r"r_(\d+)_(\w+) = (.*?)\n\s+: ", out, re.S):
        results[int(m.group(1))][m.group(2)] = " ".join(m.group(3).split())
    for k in range(len(terms)):
        for tag, _ in funs:
            if tag not in results[k]:
                raise Infra("missing result r_%d_%s in coqc output:\n%s" % (k, tag, out[-1500:]))
    return results, mod


def prove_instances(pid, mod, ks, premise, theorem_apps, extra_imports=""):
    """second file: for each instance k in ks a kernel-checked lemma `premise inst_k = true` and the
    universal theorems instantiated at it. theorem_apps: list of format strings using {i} (instance) {w} (wf lemma)."""
    path = os.path.join(GEN, "%s_oblig.v" % pid)
    lines = [HEADER, extra_imports, "From ITG Require Import %s." % mod]
    for k in ks:
        lines.append("Lemma inst_%d_wf : %s inst_%d = true. Proof. vm_compute. reflexivity. Qed." % (k, premise, k))
        for j, app in enumerate(theorem_apps):
            lines.append("Definition inst_%d_holds_%d := %s." % (k, j, app.format(i="inst_%d" % k, w="inst_%d_wf" % k)))
    open(path, "w").write("\n".join(lines) + "\n")
    rc, out = coqc(path)
    return rc == 0, out


def coq_values(name, imports, items, defs="", timeout=900):
    """Evaluate arbitrary closed Coq expressions with vm_compute in one coqc run.
    name: file stem under coq/generated; imports: text placed at the top (Require/Import lines);
    defs: auxiliary definitions (text); items: list of (tag, coq_expression) with tags matching [A-Za-z0-9_]+.
    Returns dict tag -> printed value (whitespace-normalised string, e.g. 'true', 'Some 3', '[1; 2]', '"abc"')."""
    os.makedirs(GEN, exist_ok=True)
    path = os.path.join(GEN, name + ".v")
    lines = [imports, defs]
    for tag, ex in items:
        lines.append("Definition v_%s := Eval vm_compute in (%s)." % (tag, ex))
        lines.append("Print v_%s." % tag)
    open(path, "w").write("\n".join(lines) + "\n")
    rc, out = coqc(path, timeout=timeout)
    if rc != 0:
        raise Infra("generated file %s rejected by coqc:\n%s" % (path, out[-3000:]))
    res = {}
    for m in re.finditer(r"v_(\w+) = (.*?)\n\s+: ", out, re.S):
        res[m.group(1)] = " ".join(m.group(2).split())
    missing = [t for t, _ in items if t not in res]
    if missing:
        raise Infra("missing results %s in coqc output:\n%s" % (missing[:5], out[-1500:]))
    return res


def coq_check_file(name, text, timeout=900):
    """compile a generated Coq file that contains lemmas (kernel-checked obligations); returns (ok, output)"""
    os.makedirs(GEN, exist_ok=True)
    path = os.path.join(GEN, name + ".v")
    open(path, "w").write(text)
    rc, out = coqc(path, timeout=timeout)
    return rc == 0, out
