(* C17 -- rewriting the user's source file is all-or-nothing.
   Statements only; model in Fs/Crash.v, proofs in Fs/CrashThm.v.

   Full-strength statement (holds of the writer src/write.rs implements since fix 2e11fe5):
     for every old and new content, every disk, every fault sequence -- a crash at every operation boundary,
     a crash or an error return at every byte offset inside the write, an error return of any operation
     followed by the writer's own error path -- the target holds exactly the old or exactly the new content.
   It is FALSE of every writer that opens the target itself with truncate (the pre-fix writer, F9) and of a
   writer that answers a failed rename by copying over the target: see the `_refuted` theorems. *)
From Coq Require Import List String NArith Bool.
Import ListNotations.
From IT Require Import Fs.Crash Fs.CrashThm Fs.TwoWriters Fs.Caller.

(* all-or-nothing for every writer program that passes the decidable premise, against every fault sequence *)
Theorem C17_atomic : forall w, wf_writer w = true ->
  forall (p tmp : path) (old new : content) (d : disk) (fs : list fault),
    tmp <> p -> d p = Some old ->
    let d' := r_disk (run (mkenv p tmp new) w fs d) in d' p = Some old \/ d' p = Some new.
Proof. exact wf_atomic. Qed.

(* ... and against any environment whatsoever (any state-passing oracle deciding the fate of every operation) *)
Theorem C17_atomic_any_environment : forall w, wf_writer w = true ->
  forall (St : Type) (orc : St -> fs_op -> fault * St) (s : St) (p tmp : path) (old new : content) (d : disk),
    tmp <> p -> d p = Some old ->
    let d' := r_disk (exec St orc (mkenv p tmp new) w s d) in d' p = Some old \/ d' p = Some new.
Proof. exact wf_atomic_any. Qed.

(* the temp-file + rename writer of src/write.rs *)
Theorem C17_tmp_rename_atomic : atomic_writer writer_tmp_rename.
Proof. exact tmp_rename_atomic. Qed.

(* the DESIGN.md 5.17 form: every crash prefix (operation index, byte offset) of the flat operation list *)
Theorem C17_crash_prefix_atomic : forall p tmp old new d i k,
  tmp <> p -> d p = Some old ->
  let d' := apply_prefix (real_ops p tmp new) (i, k) d in d' p = Some old \/ d' p = Some new.
Proof. exact crash_prefix_atomic. Qed.

(* Ok is returned only with the new content in place, Err only with the old content in place *)
Theorem C17_outcome : forall w, wf_outcome w = true ->
  forall (St : Type) (orc : St -> fs_op -> fault * St) (s : St) (p tmp : path) (old new : content) (d : disk),
    tmp <> p -> d p = Some old ->
    let r := exec St orc (mkenv p tmp new) w s d in
    (r_status r = RetOk -> r_disk r p = Some new) /\ (r_status r = RetErr -> r_disk r p = Some old) /\ r_status r <> Stuck.
Proof. exact wf_outcome_sound. Qed.

(* no temp file is left behind by a call that returns (unless removing it was itself made to fail) *)
Theorem C17_no_stray_tmp : forall w, wf_clean true w = true ->
  forall (St : Type) (orc : St -> fs_op -> fault * St) (s : St) (p tmp : path) (new : content) (d : disk),
    tmp <> p -> d tmp = None ->
    let r := exec St orc (mkenv p tmp new) w s d in
    no_remove_fault (r_trace r) = true -> (r_status r = RetOk \/ r_status r = RetErr) -> r_disk r tmp = None.
Proof. exact wf_clean_no_stray. Qed.

(* the temp path (target ++ ".inter_tmp_<pid>") is never the target *)
Theorem C17_tmp_differs : forall p pid, tmp_of p (real_suffix pid) <> p.
Proof. exact real_tmp_differs. Qed.

(* every run under a policy of the cut shim is covered by C17_atomic_any_environment *)
Theorem C17_shim_runs_covered : forall w, wf_writer w = true ->
  forall pl p tmp old new d, tmp <> p -> d p = Some old ->
    let d' := r_disk (run_pol (mkenv p tmp new) w pl d) in d' p = Some old \/ d' p = Some new.
Proof. exact run_pol_atomic. Qed.

(* refuted: any writer whose first operation -- or an operation reached through error returns only --
   truncates, removes, renames away or copies over the target *)
Theorem C17_clobber_refuted : forall w, reach_err_clobber w = true -> ~ atomic_writer w.
Proof. exact reach_err_clobber_refuted. Qed.

Theorem C17_truncating_open_refuted : forall ok err,
  ~ atomic_writer (WOp (SOpenCreateTrunc Target) ok err) /\ ~ atomic_writer (WOp (SOpenTrunc Target) ok err).
Proof. exact direct_open_refuted. Qed.

(* refuted: the pre-fix writer (F9), with the concrete witnesses replayed on the real code *)
Theorem C17_direct_refuted : ~ atomic_writer writer_direct.
Proof. exact direct_refuted. Qed.

Theorem C17_direct_witnesses :
  r_disk (run (mkenv "f"%string "f.tmp"%string w_new) writer_direct [FOkCrash] (disk0 "f"%string w_old)) "f"%string = Some []
  /\ r_disk (run (mkenv "f"%string "f.tmp"%string w_new) writer_direct [FOk; FCrash 5] (disk0 "f"%string w_old)) "f"%string = Some (firstn 5 w_new).
Proof. exact (conj direct_witness_open direct_witness_5). Qed.

(* refuted: temp file + rename whose rename-failure path copies over the target, whatever follows *)
Theorem C17_fallback_copy_refuted : forall ok err, ~ atomic_writer (rename_or (WOp (SCopy Tmp Target) ok err)).
Proof. exact fallback_copy_refuted. Qed.

(* two concurrent writers (a terminal build and an IDE check), each with its own temp file, under every
   interleaving and every kill point: the target holds the old content or one of the two new contents.
   run2: the error path of a process removes its own temp file; run2_stop: the error path does nothing *)
Theorem C17_two_writers_private : forall p tA tB old newA newB d sched,
  tA <> p -> tB <> p -> tA <> tB -> d p = Some old ->
  let d' := run2 p tA newA tB newB sched d in
  d' p = Some old \/ d' p = Some newA \/ d' p = Some newB.
Proof. exact two_writers_private. Qed.

Theorem C17_two_writers_private_stop : forall p tA tB old newA newB d sched,
  tA <> p -> tB <> p -> tA <> tB -> d p = Some old ->
  let d' := run2_stop p tA newA tB newB sched d in
  d' p = Some old \/ d' p = Some newA \/ d' p = Some newB.
Proof. exact two_writers_private_stop. Qed.

(* the temp files of two processes with different pids differ *)
Theorem C17_tmp_pid_differs : forall p a b, a <> b -> tmp_of p (real_suffix a) <> tmp_of p (real_suffix b).
Proof. exact real_tmp_pid_differs. Qed.

Theorem C17_two_writers_real_tmp : forall p pidA pidB old newA newB d sched,
  pidA <> pidB -> d p = Some old ->
  let d' := run2 p (tmp_of p (real_suffix pidA)) newA (tmp_of p (real_suffix pidB)) newB sched d in
  d' p = Some old \/ d' p = Some newA \/ d' p = Some newB.
Proof. exact two_writers_real_tmp. Qed.

(* refuted: a SHARED temp file.  A creates, writes, fsyncs; B truncates the same file and is killed; A renames:
   the target is empty although old and both new contents are not *)
Theorem C17_two_writers_shared_refuted :
  let p := "src/lib.rs"%string in
  let t := "src/lib.rs.inter_tmp"%string in
  let d := disk0 p w_old in
  t <> p /\ d p = Some w_old /\ w_old <> [] /\ w_new <> [] /\ w_newB <> []
  /\ run2 p t w_new t w_newB shared_sched d p = Some []
  /\ run2_stop p t w_new t w_newB shared_sched d p = Some [].
Proof. exact two_writers_shared_refuted. Qed.

Theorem C17_two_writers_shared_not_atomic :
  ~ (forall p tA tB old newA newB d sched,
       tA <> p -> tB <> p -> d p = Some old ->
       let d' := run2 p tA newA tB newB sched d in
       d' p = Some old \/ d' p = Some newA \/ d' p = Some newB).
Proof. exact two_writers_shared_not_atomic. Qed.

(* ---- the code around the writer (Fs/Caller.v): the guarantee is about ONE call with the whole new content ---- *)
(* whatever sequence of contents a caller hands to a correct writer, under any fault sequences, the target holds the
   previous content or one of the contents handed over *)
Theorem C17_caller_some_content : forall w, wf_writer w = true ->
  forall (p tmp : path) (cs : list (content * list fault)) (old : content) (d : disk),
    tmp <> p -> d p = Some old ->
    exists c, In c (old :: map fst cs) /\ calls w p tmp cs d p = Some c.
Proof. exact calls_some_content. Qed.

(* a caller that calls the writer once (what `edit_write` does) is all-or-nothing *)
Theorem C17_caller_single_call : forall w, wf_writer w = true ->
  forall (p tmp : path) (old new : content) (fs : list fault) (d : disk),
    tmp <> p -> d p = Some old ->
    let d' := calls w p tmp [(new, fs)] d in d' p = Some old \/ d' p = Some new.
Proof. exact single_call_atomic. Qed.

(* a caller that commits in two steps is not, even with the correct writer: the process dies between the steps *)
Theorem C17_caller_two_step_refuted : forall (old mid new : content), mid <> old -> mid <> new ->
  ~ all_or_nothing_caller writer_tmp_rename [mid; new].
Proof. exact two_step_refuted. Qed.

Print Assumptions C17_atomic.
Print Assumptions C17_atomic_any_environment.
Print Assumptions C17_tmp_rename_atomic.
Print Assumptions C17_crash_prefix_atomic.
Print Assumptions C17_outcome.
Print Assumptions C17_no_stray_tmp.
Print Assumptions C17_tmp_differs.
Print Assumptions C17_shim_runs_covered.
Print Assumptions C17_clobber_refuted.
Print Assumptions C17_truncating_open_refuted.
Print Assumptions C17_direct_refuted.
Print Assumptions C17_direct_witnesses.
Print Assumptions C17_fallback_copy_refuted.
Print Assumptions C17_two_writers_private.
Print Assumptions C17_two_writers_private_stop.
Print Assumptions C17_tmp_pid_differs.
Print Assumptions C17_two_writers_real_tmp.
Print Assumptions C17_two_writers_shared_refuted.
Print Assumptions C17_two_writers_shared_not_atomic.
Print Assumptions C17_caller_some_content.
Print Assumptions C17_caller_single_call.
Print Assumptions C17_caller_two_step_refuted.
