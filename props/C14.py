"""C14 -- interact: channel ends are paired per call, getters are read per call."""
import os, re, json, random, itertools, shutil, subprocess
from concurrent.futures import ThreadPoolExecutor
import hook, inst, ir, coqgen, gen_impl
from common import *

PID = "C14"
RULE = ("H-tie: one actor method per case, every placement of ordinary / pattern / getter / channel-end parameters for 1..4 parameters "
        "(4+16+64+256 placements) x lib x interact on/off x returning/non-returning, plus longer and irregular lists; the real macro's "
        "handle signature, pre-statements, variant fields, returned end (or diagnostic class) must equal Gen/Interact.v's `gen` on the same input; "
        "T-tie: wf_C14 on the IR of real expansions + C14_pairing_of_instance instantiated; runtime: concurrent renamed clones on 4 runtimes; "
        "non-trivial = distinct (kind placement, interact, returning, outcome class)")
COQ_IMPORTS = ("From Coq Require Import List String Bool.\nImport ListNotations.\nFrom IT Require Import Gen.Interact.\nOpen Scope string_scope.\n")
# tie code (not part of the theories): canonical one-line rendering of the model's result
COQ_DEFS = r'''
Definition tytxt (t : ty) : string := match t with TPath s _ _ => s | TOther s => s end.
Fixpoint sjoin (sep : string) (l : list string) : string := match l with [] => "" | [x] => x | x :: t => x ++ sep ++ sjoin sep t end.
Definition show_kt (l : list (string * ty)) : string := sjoin "#" (map (fun p => fst p ++ ":" ++ tytxt (snd p)) l).
Definition show_end (k : endk) : string := match k with ESend => "S" | ERecv => "R" end.
Definition show_pre (p : pre) : string := match p with PreGet x g => "g:" ++ x ++ ":" ++ g | PreChan None => "c:-" | PreChan (Some a) => "c:" ++ a end.
Definition show_diag (d : diag) : string := match d with DEndInRet => "DEndInRet" | DEndType => "DEndType" | DMixed => "DMixed"
  | DBothEnds => "DBothEnds" | DInPattern => "DInPattern" | DNoInteract => "DNoInteract" | DFlatName => "DFlatName" | DInterActor => "DInterActor" end.
Definition show (r : result) : string :=
  match r with
  | Diag d => "DIAG|" ++ show_diag d
  | Ok o => "OK|" ++ show_kt (lo_params o) ++ "|" ++ (match lo_ret o with None => "-" | Some (k, a) => show_end k ++ ":" ++ a end)
            ++ "|" ++ sjoin "#" (map show_pre (lo_pre o)) ++ "|" ++ show_kt (lo_fields o) ++ "|" ++ (match lo_tail o with None => "-" | Some k => show_end k end)
  end.
'''

LIBS = gen_impl.LIBS
ORD_NAMES = ["a", "b", "c", "x", "y", "n", "val", "key", "item", "count", "inter", "interx", "sprinter", "send", "recv", "actor"]
MIXED_NAMES = ["pointer_x", "my_inter_v", "winter_1", "printer_id", "x_inter_"]
GET_NAMES = ["inter_name", "inter_count", "inter_debut", "inter_foo", "inter_x1", "inter_", "inter_sender", "inter_receive",
             "inter_inter_name", "inter_inter_", "inter_inter_inter_x"]    # the marker is removed once: getter `inter_get_inter_name`
INNER = ["u8", "(u8, u8)", "Vec<u8>", "String", "Option<Vec<u8>>", "[u8; 2]", "&'static str"]
PLAIN_TYPES = ["u8", "String", "Vec<u8>", "(u8, i8)", "&'static str", "[u8; 3]", "Option<u8>", "std::sync::Arc<u8>", "u64"]
END_PREFIX = ["oneshot::", "oneshot::", "tokio::sync::oneshot::", "", "::oneshot::"]


def ns(t):
    return re.sub(r"\s+", "", t or "")


def ty_of(text):
    """Rust type text -> (text, Coq term) at the granularity oneshot_get_type inspects"""
    t = text.strip()
    q = coqgen.s
    if t.startswith("&") or t.startswith("(") or t.startswith("["):
        return (t, "(TOther %s)" % q(ns(t)))
    # path type: last segment and its first generic argument
    depth, last_start = 0, 0
    i = 0
    while i < len(t):
        ch = t[i]
        if ch == "<":
            depth += 1
        elif ch == ">":
            depth -= 1
        elif depth == 0 and t.startswith("::", i):
            last_start = i + 2
            i += 1
        i += 1
    seg = t[last_start:]
    m = re.match(r"^(\w+)\s*(<(.*)>)?$", seg, re.S)
    name = m.group(1)
    if m.group(2) is None:
        arg = "ANone"
    else:
        inner = m.group(3).strip()
        if inner == "":
            arg = "AEmpty"
        else:
            first = top_split(inner)[0].strip()
            if first.startswith("'") or re.match(r"^\d+$", first) or first.startswith("{"):
                arg = "ANotTy"
            else:
                arg = "(ATy %s)" % q(ns(first))
    return (t, "(TPath %s %s %s)" % (q(ns(t)), q(name), arg))


def top_split(s):
    out, depth, cur = [], 0, ""
    for ch in s:
        if ch in "<([":
            depth += 1
        elif ch in ">)]":
            depth -= 1
        if ch == "," and depth == 0:
            out.append(cur)
            cur = ""
        else:
            cur += ch
    if cur.strip():
        out.append(cur)
    return out or [""]


def coq_pat(tree):
    if tree[0] == "id":
        return "(PId %s)" % coqgen.s(tree[1])
    if tree[0] == "rest":
        return "PRest"
    return "(PNode [%s])" % "; ".join(coq_pat(x) for x in tree[1])


def leaves(tree):
    if tree[0] == "id":
        return [tree[1]]
    if tree[0] == "rest":
        return []
    return [y for x in tree[1] for y in leaves(x)]


class Names(object):
    def __init__(self, rng):
        self.rng, self.used = rng, set()

    def fresh(self, pool):
        c = [x for x in pool if x not in self.used]
        if c:
            x = self.rng.choice(c)
        else:
            x = self.rng.choice(pool) + str(len(self.used))
        self.used.add(x)
        return x


def mk_param(rng, kind, nm, lib, irregular):
    """one parameter of the given kind: dict(kind, text, tree, ty, coq_ty, flags)"""
    p = {"kind": kind, "flags": set()}
    if kind == "O":
        if irregular and rng.random() < 0.06:
            x = "inter_actor"
            p["flags"].add("inter-actor")
        elif irregular and rng.random() < 0.25:
            x = nm.fresh(MIXED_NAMES)
            p["flags"].add("mixed")
        else:
            x = nm.fresh(ORD_NAMES)
        p["text"] = rng.choice(["", "", "", "mut "]) + x
        p["tree"] = ("id", x)
        p["ty"] = rng.choice(PLAIN_TYPES)
    elif kind == "P":
        a, b, c = nm.fresh(ORD_NAMES), nm.fresh(ORD_NAMES), nm.fresh(ORD_NAMES)
        forms = [("(%s, %s)" % (a, b), ("node", [("id", a), ("id", b)]), "(u8, i8)"),
                 ("((%s, %s), %s)" % (a, b, c), ("node", [("node", [("id", a), ("id", b)]), ("id", c)]), "((u8, u8), String)"),
                 ("[%s, ..]" % a, ("node", [("id", a), ("rest",)]), "[u8; 3]"),
                 ("S { %s, %s }" % (a, b), ("node", [("id", a), ("id", b)]), "S"),
                 ("S { %s, .. }" % a, ("node", [("id", a)]), "S"),
                 ("W(%s)" % a, ("node", [("id", a)]), "W"),
                 ("(mut %s, ref %s)" % (a, b), ("node", [("id", a), ("id", b)]), "(u8, String)"),
                 ("(%s, (%s, ..))" % (a, b), ("node", [("id", a), ("node", [("id", b), ("rest",)])]), "(u8, (u8, u8, u8))")]
        if irregular and rng.random() < 0.35:
            r = rng.choice(["inter_send", "inter_recv", "inter_name"])
            forms = [("(%s, %s)" % (r, a), ("node", [("id", r), ("id", a)]), "(oneshot::Sender<u8>, u8)"),
                     ("(%s,)" % r, ("node", [("id", r)]), "(oneshot::Sender<u8>,)"),
                     ("[%s, ..]" % r, ("node", [("id", r), ("rest",)]), "[u8; 2]"),
                     ("S { %s, .. }" % r, ("node", [("id", r)]), "S"),
                     ("(%s, (%s,))" % (a, r), ("node", [("id", a), ("node", [("id", r)])]), "(u8, (u8,))")]
            p["flags"].add("inter-in-pattern")
        elif irregular and rng.random() < 0.1:
            forms = [("(..)", ("node", [("rest",)]), "(u8, u8)")]
        p["text"], p["tree"], p["ty"] = rng.choice(forms)
    elif kind == "G":
        x = nm.fresh(GET_NAMES)
        p["text"] = rng.choice(["", "", "mut "]) + x
        p["tree"] = ("id", x)
        p["ty"] = rng.choice(["String", "usize", "std::time::SystemTime", "u8", "Vec<u8>"])
    else:  # E
        which = rng.choice(["inter_send", "inter_recv"])
        if which in nm.used and rng.random() < 0.7:
            which = "inter_recv" if which == "inter_send" else "inter_send"
        nm.used.add(which)
        p["text"] = which
        p["tree"] = ("id", which)
        good = "Sender" if which == "inter_send" else "Receiver"
        r = rng.random()
        inner = rng.choice(INNER)
        if irregular and r < 0.12:
            p["ty"] = rng.choice(["u8", "oneshot::%s" % good, "oneshot::%s<>" % good, "oneshot::%s<'static, u8>" % good,
                                  "&oneshot::%s<u8>" % good, "(oneshot::%s<u8>,)" % good, "Chan<3>"])
            p["flags"].add("bad-end-type")
        elif irregular and r < 0.24:
            other = "Receiver" if good == "Sender" else "Sender"
            p["ty"] = rng.choice(["Vec<u8>", "oneshot::%s<%s>" % (other, inner), "Option<String>", "std::sync::Arc<u8>"])
            p["flags"].add("wrong-end-type")
        else:
            p["ty"] = rng.choice(END_PREFIX) + "%s<%s>" % (good, inner)
        p["end"] = which
    p["ty"], p["coq_ty"] = ty_of(p["ty"])
    return p


def mk_case(rng, kinds, lib, irregular=False, interact=None, ret=None):
    while True:
        nm = Names(rng)
        ps = [mk_param(rng, k, nm, lib, irregular) for k in kinds]
        # envelope: the flattened names are distinct too (`(inter, count)` next to `inter_count` is the F3 name-collision class, not C14's)
        for p in ps:
            # a pattern whose leaves join to a reserved name (`(inter, send)` -> inter_send) is treated by the macro like the reserved name
            if p["tree"][0] != "id" and "_".join(leaves(p["tree"])) in ("inter_send", "inter_recv", "inter_actor"):
                p["flags"].add("inter-in-pattern")
        fl = ["_".join(leaves(p["tree"])) or "__" for p in ps if p["kind"] != "E"]
        if len(set(fl)) == len(fl) and not (set(fl) & {"inter_send", "inter_recv"} and any(p["kind"] == "E" for p in ps)):
            break
        if irregular and rng.random() < 0.3:
            # two parameters flattening to the same identifier: refused by the naming check (documentation silent: either)
            for p in ps:
                p["flags"].add("dup-flat")
            break
    if interact is None:
        interact = rng.random() < 0.85
    if ret is None:
        ret = rng.random() < 0.22
    ret_ty = rng.choice(["u8", "String", "Option<u8>", "(u8, i8)"]) if ret else None
    is_async = lib != "std" and rng.random() < 0.2
    recv = rng.choice(["&self", "&mut self"])
    sig = ", ".join([recv] + ["%s: %s" % (p["text"], p["ty"]) for p in ps])
    builtin = [p["tree"][1] for p in ps if p["kind"] == "G" and p["tree"][1] in ("inter_name", "inter_count", "inter_debut")]
    edit_getter = ("inter_get_" + rng.choice(builtin)[6:]) if (interact and builtin and rng.random() < 0.3) else None
    return {"lib": lib, "interact": interact, "ret": ret_ty, "params": ps, "async": is_async, "kinds": "".join(kinds), "sig": sig, "edit_getter": edit_getter}


def method_text(c, name="m"):
    return "pub %sfn %s(%s)%s { todo!() }" % ("async " if c["async"] else "", name, c["sig"], (" -> " + c["ret"]) if c["ret"] else "")


def item_of(cases, names=None):
    names = names or ["m"]
    return "impl A {\n pub fn new() -> Self { todo!() }\n" + "\n".join(" " + method_text(c, n) for c, n in zip(cases, names)) + "\n}"


def attr_of(c):
    # a getter the user replaces by a hand-written one (`edit` withholds the generated method): the handle still calls it by name
    extra = ["edit(live(imp(%s)))" % c["edit_getter"]] if c.get("edit_getter") else []
    return gen_impl.actor_attr(c["lib"], None, debut=case_debut(c), interact=c["interact"], extra=extra)


def case_debut(c):
    """the `debut` option only adds the three built-in getters; without it the user writes the getters on the handle type: what is an
    inter variable, what disappears from the handle signature and what is read per call must not depend on it (about a third of the
    cases run without `debut`; a case that withholds a built-in getter by `edit` needs the option)"""
    import zlib
    return bool(c.get("edit_getter")) or zlib.crc32(c["sig"].encode()) % 3 != 0


def corpus(rng, tier):
    cs = []
    placements = [k for n in (1, 2, 3, 4) for k in itertools.product("OPGE", repeat=n)]
    reps = 1 if tier == "quick" else 3
    libs_per = 1 if tier == "quick" else 4
    j = 0
    for kinds in placements:
        for _ in range(reps):
            for l in range(libs_per):
                lib = LIBS[(j + l) % 4]
                cs.append(mk_case(rng, kinds, lib, irregular=False))
        j += 1
    # the rule corners, for every lib: end in a returning method, both ends, end without interact, getter without interact
    for lib in LIBS:
        for kinds, kw in ((("E",), {"interact": True, "ret": True}), (("E", "E"), {"interact": True, "ret": False}),
                          (("O", "E"), {"interact": False, "ret": False}), (("G", "O"), {"interact": False, "ret": True}),
                          (("G", "E", "P"), {"interact": True, "ret": False}), (("G", "G", "O"), {"interact": True, "ret": True})):
            cs.append(mk_case(rng, kinds, lib, **kw))
    # every irregular class on every lib (bounded retry until the generator produces the flag)
    for lib in LIBS:
        for kinds, flag in ((("P", "G"), "inter-in-pattern"), (("G", "P", "O"), "inter-in-pattern"), (("E",), "bad-end-type"), (("O", "E"), "bad-end-type"),
                            (("E", "G"), "wrong-end-type"), (("O", "G"), "mixed"), (("P",), "inter-in-pattern"),
                            (("O", "G", "E"), "inter-actor"), (("P", "G", "P", "O"), "dup-flat")):
            for _ in range(3 if tier == "quick" else 12):
                for _try in range(200):
                    c = mk_case(rng, kinds, lib, irregular=True, interact=True, ret=False)
                    if any(flag in p["flags"] for p in c["params"]):
                        cs.append(c)
                        break
    # longer and irregular lists
    nx = 120 if tier == "quick" else 1500
    for i in range(nx):
        n = rng.choice([1, 2, 3, 4, 5, 6, 8])
        kinds = tuple(rng.choice("OOPGGE") for _ in range(n))
        cs.append(mk_case(rng, kinds, LIBS[i % 4], irregular=True))
    return cs


# ---------- projections ----------
DIAG_CLASSES = [("cannot be accessed in methods that return a type", "DEndInRet"), ("Unexpected type argument for", "DEndType"),
                ("Expected a path type", "DEndType"), ("mixed identifiers", "DMixed"), ("Concurrent use of", "DBothEnds"),
                ("within function parameter pattern", "DInPattern"),
                # three diagnostics share the text "Naming conflict"; the note tells which check fired
                ("carried under one identifier", "DFlatName"), ("`inter_actor` is reserved", "DInterActor"),
                ("Using method arguments named", "DNoInteract"), ("Naming conflict", "DNaming")]


def diag_class(text):
    for k, v in DIAG_CLASSES:
        if k in text:
            return v
    return "DOther"


def lib_path(lib):
    return "tokio::sync::oneshot::" if lib == "tokio" else "oneshot::"


def real_projection(cls, text, c, name="m", ex=None):
    """what the real macro did, reduced to what C14 is about"""
    if cls == "DIAG":
        return {"cls": "DIAG", "diag": diag_class(text)}
    if cls != "TOKENS":
        return {"cls": cls, "detail": text[:300]}
    try:
        ex = ex or ir.parse_expansion(text)
        mdl = ex["models"][0]
        lm = [m for m in mdl["methods"] if m["name"] == name][0]
    except Exception as e:
        return {"cls": "UNRECOGNISED", "detail": repr(e)}
    b = lm.get("body_ir")
    if not b or b[0] != "BRef":
        return {"cls": "UNRECOGNISED", "detail": "handle method body not recognised: %s" % (b[1] if b else None)}
    rb = b[1]
    var = [v for v in mdl["script"]["variants"] if v["name"].lower() == name.replace("_", "").lower()]
    if len(var) != 1 or rb["msg"][0] != "MVariant":
        return {"cls": "UNRECOGNISED", "detail": "no variant / message for the method"}
    fields = [(f[0], ns(f[1])) for f in var[0]["fields"]]
    msg_fields = [f[0] for f in rb["msg"][3]]
    msg_self_named = all(s == ("SVar", f) for f, s in rb["msg"][3])
    arm = [a for a in mdl["direct"]["arms"] if a[0] == "ArmStruct" and a[1] == var[0]["name"]]
    binds = arm[0][2] if arm else None
    call = arm[0][3]["call"] if arm else None
    call_args = [a[1] for a in call[3]] if call and call[0] == "UMethod" else None
    awaited = arm[0][3]["await"] if arm else None
    if c["ret"]:
        # the reply sender the generator appends is not a user parameter
        fields, msg_fields = fields[:-1], msg_fields[:-1]
        binds = binds[:-1] if binds else binds
    pre = []
    for p in rb["pre"]:
        if p[0] == "POneshot":
            pre.append("c:" + (ns(p[5]) if p[4] else "-"))
        else:
            pre.append("g:%s:%s" % (p[1], p[2]))
    t = rb["tail"]
    tail = "-"
    if t[0] == "TRet":
        tail = {"inter_send": "S", "inter_recv": "R"}.get(t[1][1], "?" + t[1][1])
    elif t[0] not in ("TNone", "TWait"):
        tail = "?"
    return {"cls": "OK", "params": [(p[0], ns(p[1])) for p in lm["params"]], "ret": ns(lm["ret"]), "pre": pre, "fields": fields, "tail": tail,
            "routing": msg_self_named and msg_fields == [f[0] for f in fields] and binds == msg_fields and call_args == msg_fields,
            "routing_detail": {"msg": msg_fields, "binds": binds, "call_args": call_args}, "awaited": awaited}


def model_projection(shown, c):
    s = shown.strip()
    if s.startswith('"') and s.endswith('"'):
        s = s[1:-1].replace('""', '"')
    parts = s.split("|")
    if parts[0] == "DIAG":
        return {"cls": "DIAG", "diag": parts[1]}
    kt = lambda x: [tuple(y.split(":", 1)) for y in x.split("#")] if x else []
    ret = ns(c["ret"])
    if parts[2] != "-":
        k, a = parts[2].split(":", 1)
        ret = lib_path(c["lib"]) + {"S": "Sender", "R": "Receiver"}[k] + "<" + a + ">"
    return {"cls": "OK", "params": kt(parts[1]), "ret": ret, "pre": parts[3].split("#") if parts[3] else [], "fields": kt(parts[4]), "tail": parts[5], "routing": True}


KEYS = ("cls", "diag", "params", "ret", "pre", "fields", "tail", "routing")


def same(a, b):
    return all(a.get(k) == b.get(k) for k in KEYS)


# ---------- the property's oracle (from the property text and the `interact` documentation, not from the model) ----------
def oracle(c, real):
    ps = c["params"]
    ends = [p for p in ps if p["kind"] == "E"]
    silent = any(p["flags"] & {"mixed", "inter-in-pattern", "bad-end-type", "dup-flat", "inter-actor"} for p in ps)
    if c["interact"] and ends and c["ret"]:
        return [] if real["cls"] == "DIAG" else ["documentation rule 4: a channel end in a method that returns a type must be refused; got %s" % real["cls"]]
    if c["interact"] and len(ends) >= 2:
        return [] if real["cls"] == "DIAG" else ["documentation rule 5: both channel ends (or one end twice) in one method must be refused; got %s" % real["cls"]]
    if c["interact"] and any("wrong-end-type" in p["flags"] for p in ends):
        return [] if real["cls"] == "DIAG" else ["a channel-end parameter whose type is not the end it asks for (inter_send: ..::Sender<T>, inter_recv: ..::Receiver<T>) "
                                                 "must be refused with a diagnostic (regression of end-type-unchecked, F10); got %s" % real["cls"]]
    if not c["interact"] and ends:
        return [] if real["cls"] == "DIAG" else ["a parameter named inter_send / inter_recv without `interact` must be refused (it collides with the generated reply channel); got %s" % real["cls"]]
    if silent:
        return []      # the documentation does not say: either outcome is accepted
    if real["cls"] != "OK":
        return ["a method inside the documented envelope was not expanded: %s %s" % (real["cls"], real.get("diag") or real.get("detail"))]
    bad = []
    inter = c["interact"]
    keep = [p for p in ps if not (inter and p["kind"] in "GE")]
    if len(real["params"]) != len(keep) or any(rt != ns(p["ty"]) for (_, rt), p in zip(real["params"], keep)) or \
            any(p["tree"][0] == "id" and rn != p["tree"][1] for (rn, _), p in zip(real["params"], keep)):
        bad.append("handle parameters %s are not the non-inter parameters %s in their order" % (real["params"], [(p["text"], p["ty"]) for p in keep]))
    if len(real["fields"]) != len(ps) or any(ft != ns(p["ty"]) for (_, ft), p in zip(real["fields"], ps)) or \
            any(p["tree"][0] == "id" and fn != p["tree"][1] for (fn, _), p in zip(real["fields"], ps)):
        bad.append("message fields %s are not all parameters in their order" % (real["fields"],))
    if not real["routing"]:
        bad.append("message fields are not handed to the actor method by position: %s" % real["routing_detail"])
    if real.get("awaited") is not None and real["awaited"] != bool(c["async"]):
        bad.append("the dispatch arm %s the call of %s user method: %s" % ("awaits" if real["awaited"] else "does not await", "an `async fn`" if c["async"] else "a plain `fn`",
                   "the method's future is dropped, its body never runs and the channel end / values it was given are lost" if c["async"] else "the expansion does not compile"))
    getters = ["g:%s:inter_get_%s" % (p["tree"][1], p["tree"][1][6:]) for p in ps if p["kind"] == "G"] if inter else []
    if [x for x in real["pre"] if x.startswith("g:")] != getters:
        bad.append("getter reads %s, expected %s" % (real["pre"], getters))
    if inter and ends:
        e = ends[0]
        a = ns(re.search(r"<(.*)>$", e["ty"], re.S).group(1))
        opp = "Receiver" if e["end"] == "inter_send" else "Sender"
        if real["ret"] != lib_path(c["lib"]) + opp + "<" + a + ">":
            bad.append("handle returns `%s`, expected the opposite end %s%s<%s>" % (real["ret"], lib_path(c["lib"]), opp, a))
        if real["tail"] != ("R" if e["end"] == "inter_send" else "S"):
            bad.append("handle method returns end `%s`, expected the opposite of %s" % (real["tail"], e["end"]))
        if [x for x in real["pre"] if x.startswith("c:")] != ["c:" + a]:
            bad.append("typed channel declaration %s, expected exactly one over %s" % (real["pre"], a))
    else:
        if real["ret"] != ns(c["ret"]) or real["tail"] != "-":
            bad.append("return type `%s` / returned end `%s` changed although no channel end was asked for" % (real["ret"], real["tail"]))
        if [x for x in real["pre"] if x.startswith("c:")] != (["c:-"] if c["ret"] else []):
            bad.append("unexpected channel declarations %s" % real["pre"])
    return bad


def describe(c):
    return {"attr": attr_of(c), "item": item_of([c]), "kinds": c["kinds"], "lib": c["lib"], "interact": c["interact"], "returns": c["ret"]}


# ---------- runtime probe ----------
PROBE_SRC = os.path.join(VERIF, "harness", "c14")
PROBE_DIR = os.path.join(CACHE, "c14probe")
PROBE_TARGET = os.path.join(CACHE, "c14_target")


def probe_build():
    os.makedirs(PROBE_DIR, exist_ok=True)
    toml = open(os.path.join(PROBE_SRC, "Cargo.toml.in")).read().replace("@REPO@", hook.REPO)
    p = os.path.join(PROBE_DIR, "Cargo.toml")
    if not os.path.exists(p) or open(p).read() != toml:
        open(p, "w").write(toml)
    lock = os.path.join(VERIF, "harness", "probe", "Cargo.lock")
    if not os.path.exists(os.path.join(PROBE_DIR, "Cargo.lock")) and os.path.exists(lock):
        shutil.copy(lock, os.path.join(PROBE_DIR, "Cargo.lock"))
    os.makedirs(os.path.join(PROBE_DIR, "src"), exist_ok=True)
    src = open(os.path.join(PROBE_SRC, "src", "main.rs")).read()
    dst = os.path.join(PROBE_DIR, "src", "main.rs")
    if not os.path.exists(dst) or open(dst).read() != src:
        open(dst, "w").write(src)
    env = dict(os.environ, CARGO_NET_OFFLINE="true", CARGO_TARGET_DIR=PROBE_TARGET)
    env.pop("CARGO", None)
    rc, out = sh(["cargo", "build", "--offline", "--manifest-path", p], env=env, timeout=1500)
    return rc, out, os.path.join(PROBE_TARGET, "debug", "c14probe")


def probe_run(binp, lib, callers, k):
    env = dict(os.environ, SMOL_THREADS="4", ASYNC_STD_THREAD_COUNT="4")
    try:
        r = subprocess.run([binp, lib, str(callers), str(k)], stdout=subprocess.PIPE, stderr=subprocess.PIPE, text=True, timeout=90, env=env)
    except subprocess.TimeoutExpired:
        return {"error": "timeout"}
    lines = [l for l in r.stdout.splitlines() if l.strip()]
    try:
        return json.loads(lines[-1])
    except Exception:
        return {"error": "no parsable output (exit %s): %s" % (r.returncode, (r.stderr or "")[-400:])}


def probe_oracle(d):
    """values sent on an end arrive on the other end of the SAME call; getter values are the calling clone's at call time"""
    if "error" in d:
        return ["harness: " + d["error"]]
    bad = list(d["errors"])
    callers, k = d["callers"], d["k"]
    want_asks = sorted(t * 1000 + i for t in range(callers) for i in range(k) if i % 2 == 0)
    want_tells = sorted(t * 1000 + i for t in range(callers) for i in range(k) if i % 2 == 1)
    if sorted(a[0] for a in d["asks"]) != want_asks:
        bad.append("ask: calls answered %s, issued %s" % (sorted(a[0] for a in d["asks"]), want_asks))
    for tag, got, name, want in d["asks"]:
        if got != tag:
            bad.append("ask %d: the returned receiving end delivered the value sent for call %d (cross-talk)" % (tag, got))
        if name != want:
            bad.append("ask %d: inter_name seen by the actor method is %r, the calling clone's name at call time was %r" % (tag, name, want))
    if sorted(x[0] for x in d["tells"]) != want_tells:
        bad.append("tell: actor-side ends that received a value %s, issued %s" % (sorted(x[0] for x in d["tells"]), want_tells))
    for tag, v, name in d["tells"]:
        if v != tag * 7 + 1:
            bad.append("tell %d: the actor-side receiving end got %d, the caller sent %d on the end returned by that call (cross-talk)" % (tag, v, tag * 7 + 1))
        want = "c%dr%d" % (tag // 1000, tag % 1000)
        if name != want:
            bad.append("tell %d: inter_name seen by the actor method is %r, expected %r" % (tag, name, want))
    return bad


# ---------- run ----------
def run(rep):
    rng = random.Random(rep.seed)
    rep.extra["rule"] = RULE
    nthm, problems, _ = property_theorems(PID)
    rep.checker_cmds.append("make -C coq theories/Properties/C14.vo (Print Assumptions must be closed)")
    for _ in range(nthm):
        rep.oblige(not problems)
    bad = hygiene()
    rep.oblige(not bad)
    if problems or bad:
        rep.violation("theorems", {"what": "property theorem file no longer checks", "problems": problems, "hygiene": bad}, found=False)

    # ---- H-tie ----
    cs = corpus(rng, rep.tier)
    # regression inputs of the fixed finding end-type-unchecked (F10): must be refused on every lib
    for lib in LIBS:
        for nm_, ty_ in (("inter_send", "Vec<u8>"), ("inter_recv", "oneshot::Sender<u8>"), ("inter_send", "oneshot::Receiver<u8>"), ("inter_recv", "Option<String>")):
            w = mk_case(random.Random(0), ("E",), lib, interact=True, ret=False)
            w["params"][0].update({"text": nm_, "tree": ("id", nm_), "end": nm_, "flags": {"wrong-end-type"}})
            w["params"][0]["ty"], w["params"][0]["coq_ty"] = ty_of(ty_)
            w["sig"] = "&self, %s: %s" % (nm_, ty_)
            w["async"] = False
            cs.append(w)
    jobs = [("actor", [attr_of(c), item_of([c])]) for c in cs]
    res = hook.run_parallel(jobs, tag="c14", shards=12)
    if res is None:
        raise Infra("expansion batch timed out")
    shown = {}
    B = 900
    for lo in range(0, len(cs), B):
        items = []
        for i, c in enumerate(cs[lo:lo + B]):
            plist = "; ".join("(%s, %s)" % (coq_pat(p["tree"]), p["coq_ty"]) for p in c["params"])
            items.append(("c%d" % (lo + i), "show (gen %s %s [%s])" % (coqgen.b(c["interact"]), coqgen.b(bool(c["ret"])), plist)))
        shown.update(inst.coq_values("C14_gen_%d" % (lo // B), COQ_IMPORTS, items, defs=COQ_DEFS))
    rep.checker_cmds.append("coqc generated/C14_gen_*.v (model evaluated by vm_compute on the corpus)")
    accepted = []
    for i, (c, (cls, f)) in enumerate(zip(cs, res)):
        rep.evaluations += 1
        real = real_projection(cls, f[0] if f else "", c)
        model = model_projection(shown["c%d" % i], c)
        rep.count("lib", c["lib"])
        rep.count("n_params", str(len(c["params"])))
        rep.count("interact/returning", "%s/%s" % (c["interact"], bool(c["ret"])))
        rep.count("real_outcome", real["cls"] + ("/" + real["diag"] if real["cls"] == "DIAG" else ""))
        for p in c["params"]:
            rep.count("param_kind", p["kind"])
            for fl in p["flags"]:
                rep.count("irregular", fl)
        rep.nontrivial.add((c["kinds"], c["interact"], bool(c["ret"]), real["cls"], real.get("diag")))
        if i % 97 == 0:
            rep.sample({"method": method_text(c), "attr": attr_of(c), "real": {k: real.get(k) for k in KEYS if k in real}, "model": shown["c%d" % i][:300]})
        if real["cls"] == "OK":
            accepted.append(c)
        if same(real, model):
            # agreement with the model is not enough for inputs inside the envelope: the oracle must hold too
            orc = oracle(c, real)
            if rep.oblige(not orc):
                continue
            rep.violation("oracle_%d_%s" % (i, c["kinds"]), dict(describe(c), what=orc, observed=real, expected="see `what`"), found=True)
            continue
        rep.oblige(False)
        orc = oracle(c, real)
        if orc:
            rep.violation("htie_%d_%s" % (i, c["kinds"]), dict(describe(c), what=orc, observed=real, expected=model,
                          theorem="correspondence gen (Gen/Interact.v) vs real macro; oracle = property text + documentation rules 1-5"), found=True)
        else:
            rep.violation("htie_%d_%s" % (i, c["kinds"]), dict(describe(c), what="the real macro and the model differ inside C14's projection, the documented oracle accepts the real output "
                          "(model drift, or a change the documentation is silent about)", observed=real, expected=model), found=False)

    # ---- T-tie: wf_C14 on real expansions, the runtime theorem instantiated at them ----
    groups = {}
    for c in accepted:
        groups.setdefault((c["lib"], c["interact"], case_debut(c)), []).append(c)
    bundles = []
    cap = 40 if rep.tier == "quick" else 160
    for key in sorted(groups):
        g = groups[key]
        rng.shuffle(g)
        g.sort(key=lambda c: -sum(p["kind"] in "GE" for p in c["params"]))    # inter-heavy methods first
        for lo in range(0, len(g), 6):
            bundles.append((key, g[lo:lo + 6]))
    bundles.sort(key=lambda b: -sum(p["kind"] in "GE" for c in b[1] for p in c["params"]))
    bundles = bundles[:cap]
    cfgs = []
    for (lib, interact, debut), g in bundles:
        names = ["m%d" % j for j in range(len(g))]
        cfgs.append({"kind": "actor", "lib": lib, "attr": gen_impl.actor_attr(lib, None, debut=debut, interact=interact), "item": item_of(g, names),
                     "label": "bundle lib=%s interact=%s debut=%s n=%d" % (lib, interact, debut, len(g)), "cases": g, "names": names})
    cfgs = inst.expand_configs(cfgs, tag="c14t")
    terms, owners = [], []
    for c in cfgs:
        rep.evaluations += 1
        ms = inst.coq_models(c) if c["class"] == "TOKENS" else []
        if len(ms) != 1 or ms[0] is None:
            rep.oblige(False)
            rep.violation("shape_" + c["label"], {"what": "methods accepted one by one are not expanded / recognised together", "class": c["class"], "attr": c["attr"], "item": c["item"],
                                                  "output": c["text"][:1500], "errors": c.get("render_errors"), "parse_error": c.get("parse_error")}, found=False)
            continue
        terms.append(ms[0])
        owners.append(c)
    if terms:
        funs = [("wf", "wf_C14 {i}"), ("bad", "map lm_name (filter (fun lm => negb (method_ok14 {i} lm)) (m_methods {i}))")]
        resq, mod = inst.coq_eval(PID, terms, funs, extra_imports="From IT Require Import Sdpl.WfC14 Gen.InteractRt.")
        rep.checker_cmds.append("coqc generated/C14_inst.v; coqc generated/C14_oblig.v")
        good = []
        for k, (c, r) in enumerate(zip(owners, resq)):
            if rep.oblige(r["wf"] == "true"):
                good.append(k)
                continue
            # which method, and does the property's oracle fail on it?
            found, whats = False, []
            for cc, n in zip(c["cases"], c["names"]):
                if '"%s"' % n in r["bad"]:
                    real = real_projection("TOKENS", c["text"], cc, name=n, ex=c["ex"])
                    o = oracle(cc, real)
                    whats.append({"method": method_text(cc, n), "oracle": o, "observed": real})
                    found = found or bool(o)
            rep.violation("inst_" + c["label"], {"what": "instance premise wf_C14 = false for methods %s" % r["bad"], "attr": c["attr"], "item": c["item"], "methods": whats,
                                                 "theorem": "premise of C14_pairing_of_instance / C14_returned_end_is_opposite"}, found=found)
        ok, out = inst.prove_instances(PID, mod, good, "wf_C14", ["C14_pairing_of_instance {i} {w}"],
                                       extra_imports="From IT Require Import Sdpl.WfC14 Gen.InteractRt Properties.C14.")
        for _ in good:
            rep.oblige(ok)
        if not ok:
            rep.violation("obligations", {"what": "kernel rejected instance lemmas", "output": out[-2000:]}, found=False)

    # ---- runtime correspondence ----
    rc, out, binp = probe_build()
    if rc != 0:
        rep.oblige(False)
        rep.violation("probe_build", {"what": "the interact probe (harness/c14: ask / tell / both on four runtimes) is rejected by rustc against the current tree: generated code "
                                              "for documented interact usage does not compile", "output": out[-3000:]}, found=True)
    else:
        runs = [(lib, n, k) for lib in LIBS for (n, k) in (((4, 8), (8, 6)) if rep.tier == "quick" else ((2, 6), (4, 10), (8, 12), (16, 8), (3, 30)))]
        with ThreadPoolExecutor(4) as ex:
            obs = list(ex.map(lambda a: probe_run(binp, *a), runs))
        for a, d in zip(runs, obs):
            rep.evaluations += 1
            pr = probe_oracle(d)
            if pr and all(x.startswith("harness:") for x in pr):
                d = probe_run(binp, *a)
                pr = probe_oracle(d)
                if pr and all(x.startswith("harness:") for x in pr):
                    rep.notes.append("probe run %s inconclusive: %s" % (a, pr))
                    continue
            rep.traces += 1
            rep.count("probe", a[0])
            if rep.oblige(not pr):
                continue
            rep.violation("probe_%s_%d_%d" % a, {"what": pr[:10], "how_to_replay": "%s %s %d %d" % (binp, a[0], a[1], a[2]), "observation": d}, found=True)
    rep.assumptions += [
        "methods with `&self` / `&mut self` receivers and at least one typed parameter; no method generics; parameter and return types do not mention the identifiers inter_send / inter_recv",
        "parameter names are distinct; struct patterns use the shorthand field form",
        "a oneshot channel delivers the value put on its sending end to its own receiving end, at most once (Gen/InteractRt.v `slots`); `let` statements of a method body run once per call",
        "getter existence and types (rule 3 of the documentation) are checked by rustc, not by the macro; the runtime probe uses the generated `inter_get_name`",
    ]
