(* C18 -- example output is the source with each macro replaced by its real expansion; nothing outside
   examples/<dir> is touched.  Statements only; proofs live in Text/UseMacro.v and Text/Example.v.

   Model: file = list of items (IImpl attrs body | IUse attrs tree | IOther attrs x | IVerb x), `gen` = the abstract
   generator of the attribute macros with `show` off, `expand_macros` = src/file.rs:94-165, `fsu`/`update`/`is_mac` =
   src/use_macro.rs, `example_ops` = the fs operations of src/write.rs:18-135.

   FULL-STRENGTH STATEMENTS that are FALSE of the code (kept visible; each has a `_refuted` witness below,
   replayed on the real macro by props/C18.py as a known finding):
     (S)  forall macs file, expand_macros gen macs file = fold_left (fun f m => spec gen m f) macs file
          -- false when one impl carries two attributes of the same macro (F12, dup-attr)
     (R)  forall mac uses p, well_imported mac uses = true -> denotes mac uses p = true -> is_mac (track mac uses) p = true
          -- false for `::interthread::mac` (abs-path), `use interthread as it; it::mac` (crate-alias),
             two imports of one macro under different names (reimport)
     (F)  every impl with an attribute that denotes the macro w.r.t. ALL `use` items of the file is expanded
          -- false for `use interthread::*` with both macros expanded (glob-both) and for a `use` item placed
             after the impl (late-import) *)
From Coq Require Import List String Bool Permutation.
Import ListNotations.
From IT Require Import Text.UseMacro Text.Example.

Section C18.
Variables A B X : Type.
Variable gen : string -> A -> list (attr A) -> B -> list (item A B X).

(* one pass: every item is replaced, in source order, by `spec_item`: an annotated impl by itself (once, macro
   attributes removed) followed by what each macro attribute generates; a `use` item by itself minus the macro
   imports; anything else by itself *)
Theorem C18_shape : forall mac file, dup_attr A B X mac file = false ->
  expand_macro A B X gen mac file = spec A B X gen mac file.
Proof. exact (expand_macro_shape A B X gen). Qed.

(* expand(actor, family): pass after pass *)
Theorem C18_shape_passes : forall macs file, dup_all A B X gen macs file = false ->
  expand_macros A B X gen macs file = fold_left (fun f m => spec A B X gen m f) macs file.
Proof. exact (expand_macros_shape A B X gen). Qed.

(* items that are neither impl nor use are copied alone (minus `example` attributes) ... *)
Theorem C18_other_unchanged : forall mac u ue it, is_impl A B X it = false -> is_use A B X it = false ->
  spec_item A B X gen mac u ue it = [exclude_self A B X ue it].
Proof. exact (spec_other_unchanged A B X gen). Qed.

(* ... so are impls without an attribute denoting the macro ... *)
Theorem C18_plain_impl_unchanged : forall mac u ue attrs b,
  existsb (fun a => is_mac u (a_path a)) (exclude A ue attrs) = false ->
  spec_item A B X gen mac u ue (IImpl attrs b) = [IImpl (exclude A ue attrs) b].
Proof. exact (spec_plain_impl_unchanged A B X gen). Qed.

(* ... and the replacements are concatenated in source order *)
Theorem C18_in_order : forall mac f1 f2 u ue,
  spec_from A B X gen mac u ue (f1 ++ f2) =
  spec_from A B X gen mac u ue f1 ++
  (let '(u', ue') := fold_left (fun s it => next A B X (fst s) (snd s) it) f1 (u, ue) in spec_from A B X gen mac u' ue' f2).
Proof. exact (spec_in_order A B X gen). Qed.

(* the expanded impl keeps exactly its non-macro attributes, in order *)
Theorem C18_attrs_stripped : forall u attrs,
  macro_attrs A u (exclude A u attrs) = [] /\
  filter (fun a => negb (is_mac u (a_path a))) (exclude A u attrs) = filter (fun a => negb (is_mac u (a_path a))) attrs.
Proof. intros u attrs. split. - exact (exclude_no_macro A u attrs). - exact (exclude_keeps_others A u attrs). Qed.
End C18.

(* file_self_use on a use tree of any shape and nesting: no importing leaf -> tree untouched; otherwise the name bound
   by the last importing leaf, and a tree with exactly the other leaves *)
Theorem C18_use_tracking : forall mac t, fsu_post mac t (fsu mac t).
Proof. exact fsu_spec. Qed.

(* the `unwrap()` of src/use_macro.rs:168 cannot panic *)
Theorem C18_use_no_panic : forall mac t, fsu mac t <> (None, None).
Proof. exact fsu_never_none_none. Qed.

(* `is` after the use items seen so far: full path, or the single name bound by the LAST importing leaf *)
Theorem C18_is_exact : forall mac uses p,
  is_mac (track mac uses) p = true <->
  lead p = false /\ (segs p = [INTERTHREAD; mac] \/ exists n, last_opt (vis_binds mac (flat_map leaves uses)) = Some n /\ segs p = [n]).
Proof. exact is_exact. Qed.

(* what `is` accepts denotes the macro ... *)
Theorem C18_is_sound : forall mac uses p, well_imported mac uses = true ->
  is_mac (track mac uses) p = true -> denotes mac uses p = true.
Proof. exact is_sound. Qed.

(* ... and outside the known classes everything that denotes the macro is accepted *)
Theorem C18_is_complete_guarded : forall mac uses p, well_imported mac uses = true ->
  known_class mac uses p = false -> denotes mac uses p = true -> is_mac (track mac uses) p = true.
Proof. exact is_complete_guarded. Qed.

Theorem C18_abs_path_refuted : exists mac uses p, well_imported mac uses = true /\ abs_path p = true /\
  denotes mac uses p = true /\ is_mac (track mac uses) p = false.
Proof. exact is_abs_path_refuted. Qed.

Theorem C18_crate_alias_refuted : exists mac uses p, well_imported mac uses = true /\ alias_path p = true /\
  denotes mac uses p = true /\ is_mac (track mac uses) p = false.
Proof. exact is_crate_alias_refuted. Qed.

Theorem C18_reimport_refuted : exists mac uses p, well_imported mac uses = true /\ multi_import mac uses = true /\
  denotes mac uses p = true /\ is_mac (track mac uses) p = false.
Proof. exact is_reimport_refuted. Qed.

(* F12: two attributes of one macro on one impl: the specification has the impl once, the code twice *)
Theorem C18_two_attrs_refuted : exists file : list titem,
  dup_attr _ _ _ "actor" file = true /\ count_impl "B" file = 1 /\
  count_impl "B" (t_spec ["actor"] file) = 1 /\ count_impl "B" (t_expand ["actor"] file) = 2.
Proof. exact two_attrs_refuted. Qed.

Theorem C18_glob_both_refuted : exists file : list titem, exists p,
  denotes "family" (all_uses file) p = true /\ has_annotated file p = true /\
  dup_all _ _ _ tgen ["actor"; "family"] file = false /\
  has_annotated (t_expand ["actor"; "family"] file) p = true /\ all_uses (t_expand ["actor"; "family"] file) = [].
Proof. exact glob_both_refuted. Qed.

Theorem C18_late_import_refuted : exists file : list titem, exists p,
  denotes "actor" (all_uses file) p = true /\ has_annotated file p = true /\
  has_annotated (t_expand ["actor"] file) p = true /\ all_uses (t_expand ["actor"] file) = [].
Proof. exact late_import_refuted. Qed.

(* nothing outside <cwd>/examples/<dir> is created, changed or deleted (<cwd>/examples may be created), whatever
   the tree was, whether or not the directories existed, with or without main.rs *)
Theorem C18_fs_footprint : forall cwd dir fname pid e1 e2 m code mc (f : fs) q,
  let ex := cwd ++ ["examples"] in let d := ex ++ [dir] in
  q <> ex -> prefixb d q = false ->
  run_ops (example_ops cwd dir fname pid e1 e2 m code mc) f q = f q.
Proof. exact example_footprint. Qed.

Theorem C18_fs_examples_dir : forall cwd dir fname pid e1 e2 m code mc (f : fs),
  let ex := cwd ++ ["examples"] in
  run_ops (example_ops cwd dir fname pid e1 e2 m code mc) f ex = match f ex with None => if e1 then None else Some Dir | o => o end.
Proof. exact example_examples_dir. Qed.

Print Assumptions C18_shape.
Print Assumptions C18_shape_passes.
Print Assumptions C18_other_unchanged.
Print Assumptions C18_plain_impl_unchanged.
Print Assumptions C18_in_order.
Print Assumptions C18_attrs_stripped.
Print Assumptions C18_use_tracking.
Print Assumptions C18_use_no_panic.
Print Assumptions C18_is_exact.
Print Assumptions C18_is_sound.
Print Assumptions C18_is_complete_guarded.
Print Assumptions C18_abs_path_refuted.
Print Assumptions C18_crate_alias_refuted.
Print Assumptions C18_reimport_refuted.
Print Assumptions C18_two_attrs_refuted.
Print Assumptions C18_glob_both_refuted.
Print Assumptions C18_late_import_refuted.
Print Assumptions C18_fs_footprint.
Print Assumptions C18_fs_examples_dir.
