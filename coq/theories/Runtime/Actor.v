(* Runtime LTS of one generated actor model: clients driving handles, the mpsc
   queue, per-call oneshot slots and the play loop.  Definitions only (no proofs),
   so the model still runs when a proof breaks.

   Modelled, not verified (the interface to std / tokio / async-channel / oneshot):
   the mpsc channel is a FIFO queue with capacity [r_cap], a blocking send waits
   while it is full, the receiver observes "closed" when every sender is gone and
   the queue is empty, a send fails once the receiver is gone; a oneshot delivers
   at most one value and reports a dropped peer. *)
From Coq Require Import List Arith Bool Lia.
Import ListNotations.

Section Actor.
Context {A V : Type}.
(* the user's type: method k applied to the state and arguments; None = the method panics *)
Variable sem : nat -> A -> list V -> option (A * V).
(* self-consuming methods: take the actor by value *)
Variable sem_slf : nat -> A -> list V -> V.
Variable dv : V.

Definition callid := (nat * nat)%type.
Definition callid_eqb (a b : callid) := Nat.eqb (fst a) (fst b) && Nat.eqb (snd a) (snd b).

(* ---- what the generated code does for one handle method (resolved form) ---- *)
Inductive sendk := SBlocking | STry.
Record rmeth := {
  rm_reply : bool;             (* a oneshot is created, travels in the message and is awaited *)
  rm_send : sendk;
  rm_loud_send : bool;         (* send on a closed channel panics (vs. error ignored) *)
  rm_loud_wait : bool;         (* waiting on a dropped oneshot panics (vs. a default value) *)
  rm_fields : list nat;        (* message field j := supplied argument (nth j) *)
  rm_args : list nat;          (* user-method argument j := message field (nth j) *)
  rm_callee : nat;             (* the user method the arm invokes *)
  rm_reply_own : bool;         (* the arm sends the result on the message's own oneshot *)
  rm_loud_reply : bool;        (* actor-side reply on a dropped oneshot panics *)
  rm_msg : bool }.             (* the handle method sends a message at all (false: constructor, static delegate, helpers) *)

Record rmodel := {
  r_cap : option nat;
  r_meths : list rmeth;
  r_clonable : bool;           (* #[derive(Clone)] present *)
  r_guard : bool;              (* self-consuming methods check inter_get_count() <= 1 *)
  r_stop_first : bool;         (* play intercepts the stop message before dispatch and returns *)
  r_drain : bool }.            (* dropping the receiver discards the queued messages (std, tokio); async-channel keeps them
                                  - and the oneshot senders inside - alive as long as any sender exists *)

Definition route (ix : list nat) (vs : list V) : list V := map (fun i => nth i vs dv) ix.

(* ---- state ---- *)
Inductive msg := Msg (c : callid) (m : nat) (fs : list V) | MStop (c : callid).
Definition msg_id (x : msg) := match x with Msg c _ _ => c | MStop c => c end.

Inductive slot := SEmpty | SFull (v : V) | SActor (a : A) | STxDropped | SRxDropped.
Inductive outcome := Returned (v : V) | RetUnit | Panicked | Refused | Consumed (v : V) | Abandoned.
Inductive reason := ChannelClosed | Stopped | PanickedIn (c : callid) | ReplyFailed (c : callid).

Inductive op := Call (m : nat) (vs : list V) | CallAbandon (m : nat) (vs : list V)
              | CloneH | DropH | Consume (m : nat) (vs : list V).
Inductive pc := Ready | Sending (c : callid) (m : nat) (vs : list V) (ab : bool)
              | Waiting (c : callid) (m : nat)
              | StopSend (c : callid) (m : nat) (vs : list V) | StopWait (c : callid) (m : nat) (vs : list V)
              | Dead.
Record client := { c_pc : pc; c_prog : list op; c_nh : nat; c_seq : nat; c_rets : list (callid * outcome) }.

Inductive event := EInv (c : callid) | ERet (c : callid).

Record st := {
  actor : option A;
  busy : option msg;
  exited : option reason;
  queue : list msg;
  senders : nat;
  slots : list (callid * slot);
  clients : list client;
  issued : list (callid * nat * list V);
  enq : list callid;
  deq : list callid;
  lost : list callid;
  applied : list (callid * nat * list V * V);
  dropped : list callid;
  hist : list event;
  ctor_runs : nat;
  spawns : nat;
  drops : nat;
  moved : nat }.

Definition with_actor (x : option A) (s : st) : st := {| actor := x; busy := busy s; exited := exited s; queue := queue s; senders := senders s; slots := slots s; clients := clients s; issued := issued s; enq := enq s; deq := deq s; lost := lost s; applied := applied s; dropped := dropped s; hist := hist s; ctor_runs := ctor_runs s; spawns := spawns s; drops := drops s; moved := moved s |}.
Definition with_busy (x : option msg) (s : st) : st := {| actor := actor s; busy := x; exited := exited s; queue := queue s; senders := senders s; slots := slots s; clients := clients s; issued := issued s; enq := enq s; deq := deq s; lost := lost s; applied := applied s; dropped := dropped s; hist := hist s; ctor_runs := ctor_runs s; spawns := spawns s; drops := drops s; moved := moved s |}.
Definition with_exited (x : option reason) (s : st) : st := {| actor := actor s; busy := busy s; exited := x; queue := queue s; senders := senders s; slots := slots s; clients := clients s; issued := issued s; enq := enq s; deq := deq s; lost := lost s; applied := applied s; dropped := dropped s; hist := hist s; ctor_runs := ctor_runs s; spawns := spawns s; drops := drops s; moved := moved s |}.
Definition with_queue (x : list msg) (s : st) : st := {| actor := actor s; busy := busy s; exited := exited s; queue := x; senders := senders s; slots := slots s; clients := clients s; issued := issued s; enq := enq s; deq := deq s; lost := lost s; applied := applied s; dropped := dropped s; hist := hist s; ctor_runs := ctor_runs s; spawns := spawns s; drops := drops s; moved := moved s |}.
Definition with_senders (x : nat) (s : st) : st := {| actor := actor s; busy := busy s; exited := exited s; queue := queue s; senders := x; slots := slots s; clients := clients s; issued := issued s; enq := enq s; deq := deq s; lost := lost s; applied := applied s; dropped := dropped s; hist := hist s; ctor_runs := ctor_runs s; spawns := spawns s; drops := drops s; moved := moved s |}.
Definition with_slots (x : list (callid * slot)) (s : st) : st := {| actor := actor s; busy := busy s; exited := exited s; queue := queue s; senders := senders s; slots := x; clients := clients s; issued := issued s; enq := enq s; deq := deq s; lost := lost s; applied := applied s; dropped := dropped s; hist := hist s; ctor_runs := ctor_runs s; spawns := spawns s; drops := drops s; moved := moved s |}.
Definition with_clients (x : list client) (s : st) : st := {| actor := actor s; busy := busy s; exited := exited s; queue := queue s; senders := senders s; slots := slots s; clients := x; issued := issued s; enq := enq s; deq := deq s; lost := lost s; applied := applied s; dropped := dropped s; hist := hist s; ctor_runs := ctor_runs s; spawns := spawns s; drops := drops s; moved := moved s |}.
Definition with_issued (x : list (callid * nat * list V)) (s : st) : st := {| actor := actor s; busy := busy s; exited := exited s; queue := queue s; senders := senders s; slots := slots s; clients := clients s; issued := x; enq := enq s; deq := deq s; lost := lost s; applied := applied s; dropped := dropped s; hist := hist s; ctor_runs := ctor_runs s; spawns := spawns s; drops := drops s; moved := moved s |}.
Definition with_enq (x : list callid) (s : st) : st := {| actor := actor s; busy := busy s; exited := exited s; queue := queue s; senders := senders s; slots := slots s; clients := clients s; issued := issued s; enq := x; deq := deq s; lost := lost s; applied := applied s; dropped := dropped s; hist := hist s; ctor_runs := ctor_runs s; spawns := spawns s; drops := drops s; moved := moved s |}.
Definition with_deq (x : list callid) (s : st) : st := {| actor := actor s; busy := busy s; exited := exited s; queue := queue s; senders := senders s; slots := slots s; clients := clients s; issued := issued s; enq := enq s; deq := x; lost := lost s; applied := applied s; dropped := dropped s; hist := hist s; ctor_runs := ctor_runs s; spawns := spawns s; drops := drops s; moved := moved s |}.
Definition with_lost (x : list callid) (s : st) : st := {| actor := actor s; busy := busy s; exited := exited s; queue := queue s; senders := senders s; slots := slots s; clients := clients s; issued := issued s; enq := enq s; deq := deq s; lost := x; applied := applied s; dropped := dropped s; hist := hist s; ctor_runs := ctor_runs s; spawns := spawns s; drops := drops s; moved := moved s |}.
Definition with_applied (x : list (callid * nat * list V * V)) (s : st) : st := {| actor := actor s; busy := busy s; exited := exited s; queue := queue s; senders := senders s; slots := slots s; clients := clients s; issued := issued s; enq := enq s; deq := deq s; lost := lost s; applied := x; dropped := dropped s; hist := hist s; ctor_runs := ctor_runs s; spawns := spawns s; drops := drops s; moved := moved s |}.
Definition with_dropped (x : list callid) (s : st) : st := {| actor := actor s; busy := busy s; exited := exited s; queue := queue s; senders := senders s; slots := slots s; clients := clients s; issued := issued s; enq := enq s; deq := deq s; lost := lost s; applied := applied s; dropped := x; hist := hist s; ctor_runs := ctor_runs s; spawns := spawns s; drops := drops s; moved := moved s |}.
Definition with_hist (x : list event) (s : st) : st := {| actor := actor s; busy := busy s; exited := exited s; queue := queue s; senders := senders s; slots := slots s; clients := clients s; issued := issued s; enq := enq s; deq := deq s; lost := lost s; applied := applied s; dropped := dropped s; hist := x; ctor_runs := ctor_runs s; spawns := spawns s; drops := drops s; moved := moved s |}.
Definition with_ctor_runs (x : nat) (s : st) : st := {| actor := actor s; busy := busy s; exited := exited s; queue := queue s; senders := senders s; slots := slots s; clients := clients s; issued := issued s; enq := enq s; deq := deq s; lost := lost s; applied := applied s; dropped := dropped s; hist := hist s; ctor_runs := x; spawns := spawns s; drops := drops s; moved := moved s |}.
Definition with_spawns (x : nat) (s : st) : st := {| actor := actor s; busy := busy s; exited := exited s; queue := queue s; senders := senders s; slots := slots s; clients := clients s; issued := issued s; enq := enq s; deq := deq s; lost := lost s; applied := applied s; dropped := dropped s; hist := hist s; ctor_runs := ctor_runs s; spawns := x; drops := drops s; moved := moved s |}.
Definition with_drops (x : nat) (s : st) : st := {| actor := actor s; busy := busy s; exited := exited s; queue := queue s; senders := senders s; slots := slots s; clients := clients s; issued := issued s; enq := enq s; deq := deq s; lost := lost s; applied := applied s; dropped := dropped s; hist := hist s; ctor_runs := ctor_runs s; spawns := spawns s; drops := x; moved := moved s |}.
Definition with_moved (x : nat) (s : st) : st := {| actor := actor s; busy := busy s; exited := exited s; queue := queue s; senders := senders s; slots := slots s; clients := clients s; issued := issued s; enq := enq s; deq := deq s; lost := lost s; applied := applied s; dropped := dropped s; hist := hist s; ctor_runs := ctor_runs s; spawns := spawns s; drops := drops s; moved := x |}.

Notation "s ;; f" := (f s) (at level 61, left associativity, only parsing).

Fixpoint upd {X} (l : list X) (i : nat) (x : X) : list X :=
  match l, i with
  | [], _ => []
  | _ :: t, 0 => x :: t
  | h :: t, S k => h :: upd t k x
  end.

Fixpoint slot_get (l : list (callid * slot)) (c : callid) : option slot :=
  match l with [] => None | (c', x) :: t => if callid_eqb c' c then Some x else slot_get t c end.
Fixpoint slot_set (l : list (callid * slot)) (c : callid) (x : slot) : list (callid * slot) :=
  match l with [] => [(c, x)] | (c', y) :: t => if callid_eqb c' c then (c', x) :: t else (c', y) :: slot_set t c x end.
(* the oneshot senders travelling inside discarded messages are dropped *)
Definition drop_tx (l : list (callid * slot)) (cs : list callid) :=
  fold_left (fun l c => match slot_get l c with Some SEmpty => slot_set l c STxDropped | _ => l end) cs l.

Definition room (cap : option nat) (q : list msg) := match cap with None => true | Some n => length q <? n end.
Definition alive (s : st) := match exited s with None => true | Some _ => false end.
Definition meth (m : rmodel) (k : nat) := nth_error (r_meths m) k.
Definition qids (s : st) := map msg_id (queue s).
Definition busy_id (s : st) := match busy s with Some x => [msg_id x] | None => [] end.
Definition applied_ids (s : st) := map (fun e => fst (fst (fst e))) (applied s).

Definition mk_client p prog nh sq rets := {| c_pc := p; c_prog := prog; c_nh := nh; c_seq := sq; c_rets := rets |}.
(* a client thread that panics dies and drops every handle it owns *)
Definition die (c : client) (cid : callid) := mk_client Dead [] 0 (c_seq c) (c_rets c ++ [(cid, Panicked)]).
Definition ret (c : client) (p : pc) (cid : callid) (o : outcome) := mk_client p (c_prog c) (c_nh c) (c_seq c) (c_rets c ++ [(cid, o)]).
Definition goto (c : client) (p : pc) := mk_client p (c_prog c) (c_nh c) (c_seq c) (c_rets c).
Definition put (s : st) (t : nat) (c : client) (s' : st) : st := with_clients (upd (clients s) t c) s'.

(* the caller of [cid] panics: thread dies, its handles are dropped, the outcome is recorded *)
Definition client_panics (s : st) (t : nat) (c : client) (cid : callid) : st :=
  s ;; with_senders (senders s - c_nh c) ;; with_hist (hist s ++ [ERet cid]) ;; put s t (die c cid).

Definition step_client (m : rmodel) (s : st) (t : nat) : option st :=
  match nth_error (clients s) t with
  | None => None
  | Some c =>
    match c_pc c with
    | Dead => None
    | Ready =>
      match c_prog c with
      | [] => None
      | Call k vs :: rest | CallAbandon k vs :: rest =>
        let ab := match c_prog c with CallAbandon _ _ :: _ => true | _ => false end in
        if (0 <? c_nh c) && (k <? length (r_meths m)) then
          let cid := (t, c_seq c) in
          Some (s ;; with_issued (issued s ++ [(cid, k, vs)]) ;; with_hist (hist s ++ [EInv cid])
                  ;; put s t (mk_client (Sending cid k vs ab) rest (c_nh c) (S (c_seq c)) (c_rets c)))
        else Some (s ;; put s t (mk_client Ready rest (c_nh c) (c_seq c) (c_rets c)))
      | CloneH :: rest =>
        if (0 <? c_nh c) && r_clonable m then
          Some (s ;; with_senders (S (senders s)) ;; put s t (mk_client Ready rest (S (c_nh c)) (c_seq c) (c_rets c)))
        else Some (s ;; put s t (mk_client Ready rest (c_nh c) (c_seq c) (c_rets c)))
      | DropH :: rest =>
        if 0 <? c_nh c then
          Some (s ;; with_senders (pred (senders s)) ;; put s t (mk_client Ready rest (pred (c_nh c)) (c_seq c) (c_rets c)))
        else Some (s ;; put s t (mk_client Ready rest (c_nh c) (c_seq c) (c_rets c)))
      | Consume k vs :: rest =>
        if 0 <? c_nh c then
          let cid := (t, c_seq c) in
          if r_guard m && (1 <? senders s) then
            (* another clone exists: the None/Err value; `self` is dropped *)
            Some (s ;; with_senders (pred (senders s))
                    ;; put s t (mk_client Ready rest (pred (c_nh c)) (S (c_seq c)) (c_rets c ++ [(cid, Refused)])))
          else
            Some (s ;; with_hist (hist s ++ [EInv cid]) ;; put s t (mk_client (StopSend cid k vs) rest (c_nh c) (S (c_seq c)) (c_rets c)))
        else Some (s ;; put s t (mk_client Ready rest (c_nh c) (c_seq c) (c_rets c)))
      end
    | Sending cid k vs ab =>
      match meth m k with
      | None => None
      | Some rm =>
        (* the message was handed to the channel (acc) or silently discarded (~acc) *)
        let after (acc : bool) :=
          let sl := if rm_reply rm then slot_set (slots s) cid (if acc then (if ab then SRxDropped else SEmpty) else STxDropped) else slots s in
          let waits := rm_reply rm && negb ab in
          let c' := if waits then goto c (Waiting cid k) else ret c Ready cid (if ab then Abandoned else RetUnit) in
          s ;; with_queue (if acc then queue s ++ [Msg cid k (route (rm_fields rm) vs)] else queue s)
            ;; with_slots sl
            ;; with_enq (if acc then enq s ++ [cid] else enq s)
            ;; with_lost (if acc then lost s else lost s ++ [cid])
            ;; with_hist (if waits then hist s else hist s ++ [ERet cid])
            ;; put s t c' in
        if negb (alive s) then
          if rm_loud_send rm then Some (client_panics s t c cid ;; with_lost (lost s ++ [cid]))
          else Some (after false)
        else if room (r_cap m) (queue s) then Some (after true)
        else match rm_send rm with SBlocking => None | STry => Some (after false) end
      end
    | Waiting cid k =>
      match meth m k, slot_get (slots s) cid with
      | Some rm, Some (SFull v) =>
        Some (s ;; with_hist (hist s ++ [ERet cid]) ;; put s t (ret c Ready cid (Returned v)))
      | Some rm, Some SEmpty => None                        (* the reply is still pending: the caller waits *)
      | Some rm, Some _ =>
        (* the sender inside the message was dropped: the wait fails *)
        if rm_loud_wait rm then Some (client_panics s t c cid)
        else Some (s ;; with_hist (hist s ++ [ERet cid]) ;; put s t (ret c Ready cid (Returned dv)))
      | _, _ => None
      end
    | StopSend cid k vs =>
      if negb (alive s) then Some (client_panics s t c cid ;; with_lost (lost s ++ [cid]))
      else if room (r_cap m) (queue s) then
        Some (s ;; with_queue (queue s ++ [MStop cid]) ;; with_slots (slot_set (slots s) cid SEmpty)
                ;; with_enq (enq s ++ [cid]) ;; put s t (goto c (StopWait cid k vs)))
      else None
    | StopWait cid k vs =>
      match slot_get (slots s) cid with
      | Some (SActor a) =>
        (* the handle is consumed together with the actor *)
        Some (s ;; with_senders (pred (senders s)) ;; with_hist (hist s ++ [ERet cid])
                ;; put s t (mk_client Ready (c_prog c) (pred (c_nh c)) (c_seq c) (c_rets c ++ [(cid, Consumed (sem_slf k a vs))])))
      | Some SEmpty | None => None
      | Some _ => Some (client_panics s t c cid)
      end
    end
  end.

(* the actor thread ends abnormally: the receiver and every queued message (with the oneshot senders inside) are dropped *)
Definition crash (m : rmodel) (s : st) (why : reason) (extra : list callid) : st :=
  let gone := extra ++ qids s in
  s ;; with_actor None ;; with_busy None ;; with_exited (Some why) ;; with_queue []
    ;; with_slots (drop_tx (slots s) (if r_drain m then gone else extra)) ;; with_deq (deq s ++ qids s) ;; with_dropped (dropped s ++ gone) ;; with_drops (S (drops s)).

Definition step_actor (m : rmodel) (s : st) : option st :=
  match exited s with
  | Some _ => None
  | None =>
    match busy s with
    | None =>
      match queue s with
      | [] =>
        if senders s =? 0 then
          (* every handle is gone and the queue is drained: the loop ends, the actor value is dropped *)
          Some (s ;; with_actor None ;; with_exited (Some ChannelClosed) ;; with_drops (S (drops s)))
        else None
      | MStop cid :: q =>
        match actor s with
        | Some a =>
          if r_stop_first m then
            (* reply (actor, receiver) and return: the actor value moves to the caller, the receiver is dropped with it *)
            Some (s ;; with_actor None ;; with_exited (Some Stopped) ;; with_queue []
                    ;; with_slots (drop_tx (slot_set (slots s) cid (SActor a)) (if r_drain m then map msg_id q else []))
                    ;; with_deq (deq s ++ cid :: map msg_id q) ;; with_dropped (dropped s ++ map msg_id q) ;; with_moved (S (moved s)))
          else
            (* dispatched like any message: the `=> ()` arm ignores it, its oneshot sender is dropped *)
            Some (s ;; with_queue q ;; with_slots (slot_set (slots s) cid STxDropped)
                    ;; with_deq (deq s ++ [cid]) ;; with_dropped (dropped s ++ [cid]))
        | None => None
        end
      | x :: q => Some (s ;; with_busy (Some x) ;; with_queue q ;; with_deq (deq s ++ [msg_id x]))
      end
    | Some (MStop _) => None
    | Some (Msg cid k fs) =>
      match meth m k, actor s with
      | Some rm, Some a =>
        let args := route (rm_args rm) fs in
        match sem (rm_callee rm) a args with
        | None => Some (crash m s (PanickedIn cid) [cid])
        | Some (a', r) =>
          let s1 := s ;; with_actor (Some a') ;; with_busy None ;; with_applied (applied s ++ [(cid, rm_callee rm, args, r)]) in
          if rm_reply rm then
            if rm_reply_own rm then
              match slot_get (slots s) cid with
              | Some SRxDropped =>
                (* the caller abandoned the pending call: the reply fails *)
                if rm_loud_reply rm then Some (crash m s1 (ReplyFailed cid) []) else Some s1
              | _ => Some (s1 ;; with_slots (slot_set (slots s) cid (SFull r)))
              end
            else Some (s1 ;; with_slots (drop_tx (slots s) [cid]))
          else Some s1
        end
      | _, _ => None
      end
    end
  end.

Inductive choice := Cl (t : nat) | Ac.
Definition step (m : rmodel) (s : st) (ch : choice) : option st :=
  match ch with Cl t => step_client m s t | Ac => step_actor m s end.
(* a disabled choice is a no-op, so every list of choices is a schedule *)
Definition step' (m : rmodel) (s : st) (ch : choice) : st := match step m s ch with Some s' => s' | None => s end.
Definition run_from (m : rmodel) (s : st) (sched : list choice) : st := fold_left (step' m) sched s.

(* state right after `Live::new(..)` succeeded: one constructor run, one channel, one spawn.
   progs: per client its program and the number of handles (clones) it starts with *)
Definition init (a0 : A) (progs : list (list op * nat)) : st :=
  {| actor := Some a0; busy := None; exited := None; queue := []; senders := fold_right (fun p n => snd p + n) 0 progs;
     slots := []; clients := map (fun p => mk_client Ready (fst p) (snd p) 0 []) progs;
     issued := []; enq := []; deq := []; lost := []; applied := []; dropped := []; hist := [];
     ctor_runs := 1; spawns := 1; drops := 0; moved := 0 |}.
Definition run (m : rmodel) (a0 : A) (progs : list (list op * nat)) (sched : list choice) : st := run_from m (init a0 progs) sched.

End Actor.
