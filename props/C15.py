"""C15 -- edit withholds exactly the named parts; emitted + withheld = full model; only file-marked parts are written."""
import random, os, re, json, shutil
import hook, inst, gen_impl
import edit_spec as es
from common import *

PID = "C15"
RULE = ("instances = (model, edit specification) pairs: models = real full expansions (no edit) of impl blocks with <= 3 methods x {debut, Debug} x "
        "{actor, family with 1-2 members}; specifications over the grammar edit[(script|live)[(def|imp[(names)]|trt[(names)])]] with file(..) at every level "
        "(legal, and with one slip: double declaration / nested file / unknown name / unknown key), plus mutated attribute trees for the parser; "
        "non-trivial = distinct (kind, accepted/rejected, which sections are named, which are file-marked, listed-vs-all) classes")
IMPORTS = ("From Coq Require Import List String Bool.\nImport ListNotations.\nOpen Scope string_scope.\n"
           "From IT Require Import Gen.Edit.\n")

ITEMS = [
    "impl A {\n pub fn new(v: i8) -> Self { todo!() }\n pub fn inc(&mut self) {}\n pub fn get(&self, n: i8) -> i8 { n }\n}",
    "impl A {\n pub fn new() -> Self { todo!() }\n /// doc of put\n pub fn put(&mut self, k: u8, v: String) {}\n}",
    "impl A {\n pub fn try_new(v: u8) -> Option<Self> { None }\n pub fn file(&self) -> u8 { 0 }\n pub fn def(&mut self, x: u8) {}\n pub fn imp(&self) {}\n}",
    "impl A {\n pub fn new() -> Self { todo!() }\n}",
]
# former witnesses of the two F7 findings (repaired by fix: commits): kept as regression inputs, a recurrence is a VIOLATION
REGRESSION = [
    ("family-edit-multi", ("flist", [("s", ("def",)), ("s", ("imp", None))]), [None]),
    ("family-edit-multi", ("flist", [("s", ("def",)), ("sf", [("imp", None)])]), [None]),
    ("family-edit-multi", ("flist", [("s", ("trt", None)), ("s", ("imp", [("n", "new")])), ("s", ("def",))]), [None]),
    ("member-edit", None, [("list", [("p", ("script", [("s", ("imp", [("n", "play")]))]))])]),
    ("member-edit", None, [("list", [("p", ("live", [("s", ("def",))]))])]),
    ("member-edit", None, [("bare",)]),
    ("member-edit", None, [("filebare",)]),
    ("member-edit", ("bare",), [("list", [("p", ("script", None)), ("pf", [("live", [("s", ("imp", [("n", "new")]))])])])]),
]


def attr_join(*parts):
    return ", ".join(p for p in parts if p)


def models(rng, tier):
    ms = []
    opts = ["", "debut", "Debug", "debut, Debug"]
    for i, item in enumerate(ITEMS):
        for o in (opts if tier != "quick" else opts[:1] + [rng.choice(opts[1:])]):
            lib = rng.choice(["", "", 'lib = "tokio"'])
            ms.append({"kind": "actor", "base": attr_join(lib, o), "item": item, "label": "actor item%d %s" % (i, o)})
    nrand = 2 if tier == "quick" else 8
    for k in range(nrand):
        im = gen_impl.random_impl(rng, "std", slf_prob=0.0)
        ms.append({"kind": "actor", "base": rng.choice(opts), "item": im["item"], "label": "actor random%d" % k})
    for i, item in enumerate(ITEMS[:2] if tier == "quick" else ITEMS):
        for o in (["", "debut"] if tier != "quick" else [rng.choice(["", "debut"])]):
            for nm in (1, 2):
                ms.append({"kind": "family", "base": o, "item": item, "members": ["U", "V"][:nm],
                           "label": "family item%d %s members=%d" % (i, o, nm)})
    return ms


def fam_attr(m, fam_edit_txt, mem_txts):
    mems = ['actor(%s)' % attr_join('first_name = "%s"' % n, t) for n, t in zip(m["members"], mem_txts)]
    return attr_join(m["base"], fam_edit_txt, *mems)


def coq_part(p):
    return "(mk_part %s %s %s)" % ("true" if p["def"] else "false", es.clist(es.cs(n) for n in p["mets"]), es.clist(es.cs(n) for n in p["trts"]))


def spec_class(kind, o, verdict):
    """coverage class of one specification"""
    if not isinstance(o, dict):
        return (kind, verdict, str(o))
    def sec(s):
        return "".join("-" if s[k] is None else (("A" if s[k][0] == "all" else "L") + ("f" if (s[k][1] if s[k][0] == "all" else any(f for _, f in s[k][1])) else "")) for k in ("def", "imp", "trt"))
    if "script" in o:
        return (kind, verdict, sec(o["script"]), sec(o["live"]), o["remove"])
    return (kind, verdict, sec(o))


def run(rep):
    rng = random.Random(rep.seed)
    rep.extra["rule"] = RULE
    quick = rep.tier == "quick"
    # ------------------------------------------------------------------------------------------------------------------
    # 1. universal theorems
    nthm, problems, _ = property_theorems(PID)
    rep.checker_cmds.append("make -C coq theories/Properties/C15.vo (Print Assumptions must be closed)")
    for _ in range(max(nthm, 1)):
        rep.oblige(not problems)
    bad = hygiene()
    rep.oblige(not bad)
    if problems or bad:
        rep.violation("theorems", {"what": "property theorem file no longer checks", "problems": problems, "hygiene": bad}, found=False)

    # ------------------------------------------------------------------------------------------------------------------
    # 2. full models (no edit) from the real macro
    ms = models(rng, rep.tier)
    res = hook.run_parallel([("fn:code_edit", ["", m["kind"], fam_attr(m, "", [""] * len(m["members"])) if m["kind"] == "family" else m["base"], m["item"]]) for m in ms], tag="c15m")
    if res is None:
        raise Infra("model batch timed out")
    good = []
    for m, (cls, f) in zip(ms, res):
        rep.evaluations += 1
        rec = es.recognise(f[0]) if cls == "VALUE" else None
        if rec is None:
            rep.oblige(False)
            rep.violation("model_" + m["label"], {"what": "full model not produced / not recognised", "class": cls, "attr": m["base"], "item": m["item"], "output": (f[0] if f else "")[:1500]})
            continue
        parts = es.parts_of(rec)
        nparts = 2 if m["kind"] == "actor" else 1 + 2 * len(m["members"])
        empty_edit = es.recognise(f[1]) == []
        distinct = all(len(set(p["mets"])) == len(p["mets"]) and len(set(p["trts"])) == len(p["trts"]) and p["def"] for _, p in parts)
        # premises of C15_partition (distinct names) and of the "no edit" theorem, on what the macro emits now
        if not rep.oblige(len(parts) == nparts and distinct and empty_edit):
            rep.violation("model_shape_" + m["label"], {"what": "full model is not %d structs with distinct method/trait names and an empty file part" % nparts,
                                                        "attr": m["base"], "item": m["item"], "parts": parts, "edit": f[1][:500]}, found=not empty_edit)
            continue
        m["types"] = [t for t, _ in parts]
        m["parts"] = [p for _, p in parts]
        m["full_seq"] = es.proj_seq(rec)
        good.append(m)
        rep.count("model_kind", m["kind"])
    # ------------------------------------------------------------------------------------------------------------------
    # 3. specifications
    cases = []   # dict(model, kind, attr, coq expressions, oracle data)
    n_specs = 600 if quick else 5000
    actors = [m for m in good if m["kind"] == "actor"]
    fams = [m for m in good if m["kind"] == "family"]

    def add_actor(m, e, origin, is_meta=False):
        meta = e if is_meta else es.to_meta(e)
        ast = es.ast_of_meta(meta)
        cases.append({"m": m, "kind": "actor", "origin": origin, "meta": meta, "ast": ast, "attr": attr_join(m["base"], es.meta_text(meta))})

    for k in range(n_specs if actors else 0):
        m = actors[k % len(actors)]
        e = es.gen_edit(rng, m["parts"][0], m["parts"][1], bad=0.0 if k % 3 else 0.12)
        if k % 11 == 5:
            e = es.empties(rng, e)
        add_actor(m, e, "grammar")
    # exhaustive single-struct specifications of the smallest models
    for m in actors[:(1 if quick else 4)]:
        for sol, part in (("script", m["parts"][0]), ("live", m["parts"][1])):
            allp = es.enum_part(sol, part)
            if quick:
                allp = rng.sample(allp, min(150, len(allp)))
            elif len(allp) > 4000:
                allp = rng.sample(allp, 4000)
            for p in allp:
                for wrap in ((False, True) if not quick else (rng.random() < 0.3,)):
                    if wrap and p[1] is not None and any(x[0] == "sf" or (x[1][0] != "def" and x[1][1] and any(y[0] == "nf" for y in x[1][1])) for x in p[1]):
                        continue
                    add_actor(m, ("list", [("pf", [p])] if wrap else [("p", p)]), "exhaustive")
    # mutated attribute trees (parser correspondence on illegal / odd forms)
    for k in range((150 if quick else 1500) if actors else 0):
        m = actors[k % len(actors)]
        if k % 4 == 0:
            meta = es.gen_meta(rng, 0, "edit")
        else:
            meta = es.mutate_meta(rng, es.to_meta(es.gen_edit(rng, m["parts"][0], m["parts"][1])))
            if rng.random() < 0.3:
                meta = es.mutate_meta(rng, meta)
            meta = (meta[0], "edit") + tuple(meta[2:])
        add_actor(m, meta, "mutated", is_meta=True)
    # systematic one-slip specifications: each must be rejected
    for m in (actors if not quick else actors[:4] + actors[-1:]):
        for lab, e in es.slips(rng, m["parts"][0], m["parts"][1]):
            add_actor(m, e, "slip")
            cases[-1]["slip"] = lab
        for lab, meta in es.meta_slips(m["parts"][0], m["parts"][1]):
            add_actor(m, meta, "slip", is_meta=True)
            cases[-1]["slip"] = "leaf-" + lab
    # documented special forms
    for m in actors[:2]:
        for e in (("bare",), ("filebare",)):
            add_actor(m, e, "grammar")
    # families
    def add_family(m, fe, mes, origin, tag=None, fmeta=None, mmetas=None):
        """fe / mes: ASTs (or None); fmeta / mmetas: attribute trees given directly (slips that the AST cannot express)"""
        fmeta = fmeta if fmeta is not None else (es.to_meta(fe) if fe is not None else None)
        mmetas = mmetas if mmetas is not None else [es.to_meta(x) if x is not None else None for x in mes]
        fam = None if fmeta is None else es.ast_of_meta(fmeta, family=True)
        mems = [None if mm is None else es.ast_of_meta(mm) for mm in mmetas]
        cases.append({"m": m, "kind": "family", "origin": origin, "fam": fam, "fmeta": fmeta, "mems": mems, "mmetas": mmetas, "regression": tag,
                      "attr": fam_attr(m, es.meta_text(fmeta) if fmeta else "", [es.meta_text(x) if x else "" for x in mmetas])})

    for m in fams:
        nm = len(m["members"])
        for tag, fe, mes in REGRESSION:
            add_family(m, fe, (mes + [None] * nm)[:nm], "regression", tag)
    for m in (fams if not quick else fams[:2]):
        nm = len(m["members"])
        for lab, meta in es.meta_slips(m["parts"][0], m["parts"][0], family=True):
            add_family(m, None, [None] * nm, "slip", fmeta=meta)
            cases[-1]["slip"] = "family-leaf-" + lab
        for lab, meta in es.meta_slips(m["parts"][1], m["parts"][2]):
            add_family(m, None, [None] * nm, "slip", mmetas=[meta] + [None] * (nm - 1))
            cases[-1]["slip"] = "member-leaf-" + lab
    for k in range((220 if quick else 2000) if fams else 0):
        m = fams[k % len(fams)]
        fe = None
        if rng.random() < 0.7:
            fe = es.gen_fam(rng, m["parts"][0], bad=0.1 if k % 3 == 0 else 0.0, single=(True if rng.random() < 0.25 else None))
            if k % 11 == 5:
                fe = es.empties(rng, fe)
        mes = []
        for j in range(len(m["members"])):
            if rng.random() < 0.45:
                me = es.gen_edit(rng, m["parts"][1 + 2 * j], m["parts"][2 + 2 * j], bad=0.08 if k % 4 == 0 else 0.0)
                mes.append(es.empties(rng, me) if k % 13 == 7 else me)
            else:
                mes.append(None)
        add_family(m, fe, mes, "grammar")
    rng.shuffle(cases)

    # real side ----------------------------------------------------------------------------------------------------------
    jobs = []
    for c in cases:
        jobs.append(("fn:edit_parse", ["", c["kind"], c["attr"]]))
        jobs.append(("fn:code_edit", ["", c["kind"], c["attr"], c["m"]["item"]]))
    res = hook.run_parallel(jobs, tag="c15s", shards=12)
    if res is None:
        raise Infra("specification batch timed out")
    for i, c in enumerate(cases):
        (pc, pf), (cc, cf) = res[2 * i], res[2 * i + 1]
        c["real_parse"] = pf if pc == "VALUE" else ("DIAG" if pc == "DIAG" else pc + ":" + (pf[0] if pf else ""))
        if cc == "VALUE":
            rc, re_ = es.recognise(cf[0]), es.recognise(cf[1])
            c["real_rec"] = (rc, re_)
            c["real_ce"] = "UNRECOGNISED" if rc is None or re_ is None else "code=%s|edit=%s" % (es.proj_seq(rc), es.proj_seq(re_))
        else:
            c["real_rec"] = None
            c["real_ce"] = "DIAG" if cc == "DIAG" else cc + ":" + (cf[0] if cf else "")[:300]

    # model side (one coqc call per <= 400 cases) ----------------------------------------------------------------------------
    def q(x):
        return x
    items = []
    for i, c in enumerate(cases):
        m = c["m"]
        if c["kind"] == "actor":
            mt = es.meta_coq(c["meta"])
            items.append(("p%d" % i, "show_res (edit_parse %s)" % mt))
            items.append(("c%d" % i, "show_code_edit (e <- edit_parse %s ;; actor_code_edit e %s %s)" % (mt, coq_part(m["parts"][0]), coq_part(m["parts"][1]))))
            if not isinstance(c["ast"], str):
                a = es.ast_coq(c["ast"])
                items.append(("d%d" % i, "if nonempty %s && legal %s then show_ea (denote %s) else \"DIAG\"" % (a, a, a)))
        else:
            fm = es.meta_coq(c["fmeta"]) if c["fmeta"] else None
            items.append(("p%d" % i, "show_res (%s)" % ("edit_parse_family %s" % fm if fm else "Ok default_ea")))
            binds, mems = "", []
            for j, mm in enumerate(c["mmetas"]):
                ex = "edit_parse_member %s" % es.meta_coq(mm) if mm else "Ok default_ea"
                items.append(("m%d_%d" % (i, j), "show_res (%s)" % ex))
                if mm and not isinstance(c["mems"][j], str):
                    a = es.ast_coq(c["mems"][j])
                    items.append(("dm%d_%d" % (i, j), "if nonempty %s && legal %s then show_ea (denote %s) else \"DIAG\"" % (a, a, a)))
                binds += "e%d <- %s ;; " % (j, ex)
                mems.append("(e%d, %s, %s)" % (j, coq_part(m["parts"][1 + 2 * j]), coq_part(m["parts"][2 + 2 * j])))
            items.append(("c%d" % i, "show_code_edit (e <- %s ;; %sfamily_code_edit e %s %s)" % (
                "edit_parse_family %s" % fm if fm else "Ok default_ea", binds, coq_part(m["parts"][0]), es.clist(mems))))
            if c["fam"] is not None and not isinstance(c["fam"], str):
                a = es.fam_coq(c["fam"])
                items.append(("d%d" % i, "if nonempty_fam %s && legal_fam %s then show_ea (denote_fam %s) else \"DIAG\"" % (a, a, a)))
    vals = {}
    CH = 900
    from concurrent.futures import ThreadPoolExecutor
    with ThreadPoolExecutor(4) as ex:
        for r in ex.map(lambda k: inst.coq_values("C15_vals_%d" % (k // CH), IMPORTS, items[k:k + CH]), range(0, len(items), CH)):
            vals.update(r)
    rep.checker_cmds.append("coqc generated/C15_vals_*.v (vm_compute of Gen/Edit.v on the same inputs)")
    unq = lambda s: s[1:-1] if s.startswith('"') else s

    # comparison -------------------------------------------------------------------------------------------------------------
    known_hit = {}
    diffs = 0

    def oracle_actor(c):
        """-> ('reject',) | ('outside',) | ('ok', expected code item list per type (sets), expected file parts per type)"""
        ast = c["ast"]
        if ast == "reject":
            return ("reject", "unknown key, file(..) directly inside file(..), empty list or non-bare def / name")
        if ast == "outside":
            return ("outside",)
        o = es.oracle_spec(ast)
        if o is None:
            return ("reject", "double declaration, nested file or empty list")
        if o == "outside":
            return ("outside",)
        exp = []
        for key, part in (("script", c["m"]["parts"][0]), ("live", c["m"]["parts"][1])):
            sp = es.oracle_split(o[key], part)
            if sp is None:
                return ("reject", "a listed name matches nothing in %s" % key)
            exp.append(sp)
        return ("ok", exp, o)

    def oracle_family(c):
        m = c["m"]
        exp = []
        # verdicts of every specification in the attribute first: one "must be rejected" suffices, "outside" makes no demand
        if c["fam"] == "outside" or "outside" in c["mems"]:
            return ("outside",)
        if c["fam"] == "reject" or "reject" in c["mems"]:
            return ("reject", "unknown key, nested file, empty list or non-bare name")
        if c["fam"] is None:
            fo = es.NONE()
        else:
            fo = es.oracle_fam(c["fam"])
            if fo is None:
                return ("reject", "family: double declaration, nested file or empty list")
            if fo == "outside":
                return ("outside",)
        mos = []
        for me in c["mems"]:
            o = es.oracle_spec(me) if me else {"script": es.NONE(), "live": es.NONE()}
            if o == "outside":
                return ("outside",)
            if o is None:
                return ("reject", "member: double declaration, nested file or empty list")
            mos.append(o)
        sp = es.oracle_split(fo, m["parts"][0])
        if sp is None:
            return ("reject", "family: a listed name matches nothing")
        exp.append(sp)
        for j, o in enumerate(mos):
            for key, part in (("script", m["parts"][1 + 2 * j]), ("live", m["parts"][2 + 2 * j])):
                sp = es.oracle_split(o[key], part)
                if sp is None:
                    return ("reject", "member: a listed name matches nothing")
                exp.append(sp)
        return ("ok", exp, fo)

    def oracle_holds(c, orc):
        """the property's demand on the REAL output"""
        if orc[0] == "outside":
            return True, ""
        real = c["real_ce"]
        if orc[0] == "reject":
            if real != "DIAG":
                return False, "specification must be rejected (%s) but the macro returned %s" % (orc[1], real[:200])
            if "matches nothing" not in orc[1] and isinstance(c["real_parse"], list):
                return False, "specification must be rejected by the option parser (%s) but EditActor::parse accepted it as %s" % (orc[1], c["real_parse"][0])
            return True, ""
        if c["real_rec"] is None or None in c["real_rec"]:
            return False, "legal specification naming existing parts was not expanded: %s" % real[:300]
        types = c["m"]["types"]
        code_parts = es.parts_by_type(c["real_rec"][0], types)
        edit_parts = es.parts_by_type(c["real_rec"][1], types)
        foreign = [t for _, t, _ in c["real_rec"][0] + c["real_rec"][1] if t not in types]
        if foreign:
            return False, "items of unknown types %s" % foreign
        for t, (em, wh, fi), cp, ep, full in zip(types, orc[1], code_parts, edit_parts, c["m"]["parts"]):
            if es.part_items(cp) != es.part_items(em):
                return False, "%s: emitted %s, expected full model minus the named parts = %s" % (t, es.part_items(cp), es.part_items(em))
            if es.part_items(ep, True) != es.part_items(fi, True):
                return False, "%s: handed to the file writer %s, expected exactly the file-marked parts %s" % (t, es.part_items(ep, True), es.part_items(fi, True))
            # emitted + withheld = full, nothing in both
            for fld in ("mets", "trts"):
                if sorted(cp[fld] + wh[fld]) != sorted(full[fld]) or set(cp[fld]) & set(wh[fld]):
                    return False, "%s: emitted %s + withheld %s is not the full model %s" % (t, cp[fld], wh[fld], full[fld])
        return True, ""

    for i, c in enumerate(cases):
        rep.evaluations += 1
        rep.count("origin", c["kind"] + "/" + c["origin"])
        model_ce = unq(vals["c%d" % i])
        if model_ce.startswith("DIAG"):
            model_ce = "DIAG"
        model_p = [unq(vals["p%d" % i])] + ([unq(vals["m%d_%d" % (i, j)]) for j in range(len(c["mems"]))] if c["kind"] == "family" else [])
        # the real parser prints family line + one line per member; DIAG as a whole when anything aborts
        if c["real_parse"] == "DIAG":
            parse_ok = "DIAG" in model_p
        elif isinstance(c["real_parse"], list):
            got = [c["real_parse"][0]] + [x.split("=", 1)[1] for x in c["real_parse"][1:]]
            parse_ok = got == model_p
        else:
            parse_ok = False
        ce_ok = model_ce == c["real_ce"]
        orc = oracle_actor(c) if c["kind"] == "actor" else oracle_family(c)
        verdict = "rejected" if c["real_ce"] == "DIAG" else "accepted"
        rep.count("verdict", verdict)
        rep.count("oracle", orc[0])
        if orc[0] == "ok":
            rep.nontrivial.add(spec_class(c["kind"], orc[2], verdict))
        else:
            rep.nontrivial.add((c["kind"], verdict, orc[0], orc[1] if len(orc) > 1 else ""))
        # declarative meaning vs real parser (C15_parse_grammar / C15_family_parse / C15_member_parse instantiated on the real code);
        # the real parser reports one verdict for the whole attribute, so lines are compared only when everything was accepted
        den_ok = True
        dens = [vals.get("d%d" % i)] + ([vals.get("dm%d_%d" % (i, j)) for j in range(len(c["mems"]))] if c["kind"] == "family" else [])
        if isinstance(c["real_parse"], list):
            got = [c["real_parse"][0]] + [x.split("=", 1)[1] for x in c["real_parse"][1:]]
            for g, d in zip(got, dens):
                if d is not None and unq(d) != g:
                    den_ok = False
        elif c["real_parse"] == "DIAG":
            # rejected as a whole: fine iff some specification of the attribute is illegal, or one is not an AST of the grammar
            present = [c["ast"]] if c["kind"] == "actor" else [x for x in [c["fam"]] + c["mems"] if x is not None]
            if present and all(not isinstance(x, str) for x in present) and all(d is not None and unq(d) != "DIAG" for d in dens if d is not None):
                den_ok = False
        holds, why = oracle_holds(c, orc)
        if c.get("slip") and orc[0] != "reject":
            raise Infra("slip generator produced a specification the oracle does not reject: %s %s" % (c["slip"], c["attr"]))
        if c.get("slip"):
            rep.count("slip", re.sub(r"-(script|live)", "", c["slip"]))
        if i % 97 == 0:
            rep.sample({"attr": c["attr"], "real_parse": c["real_parse"], "real": c["real_ce"][:200], "model": model_ce[:200], "oracle": orc[0]})
        ok = rep.oblige(parse_ok) & rep.oblige(ce_ok) & rep.oblige(den_ok) & rep.oblige(holds)
        if ok:
            continue
        diffs += 1
        if c.get("regression"):
            if c["regression"] in known_hit:
                continue
            known_hit[c["regression"]] = c["attr"]
        elif diffs > 6:
            continue
        data = {"kind": c["kind"], "attr": c["attr"], "item": c["m"]["item"], "full_model": c["m"]["full_seq"],
                "real_parse": c["real_parse"], "model_parse": model_p, "real_code_edit": c["real_ce"], "model_code_edit": model_ce,
                "replay": "hook job fn:code_edit ['', %r, attr, item]" % c["kind"]}
        if not holds:
            data["what"] = "the real macro violates C15 on this input: " + why
            if c.get("regression"):
                data["what"] = "RECURRENCE of the repaired defect %s: " % c["regression"] + data["what"]
            data["expected"] = why
            rep.violation(("regression_%s_%d" % (c["regression"], diffs)) if c.get("regression") else "edit_%d" % diffs, data, found=True)
        else:
            data["what"] = ("correspondence between Gen/Edit.v and the real code no longer checks (parse %s, split %s, declarative meaning %s); the property's oracle holds on the real output "
                            "(input outside the documented grammar or model drift)" % (parse_ok, ce_ok, den_ok))
            rep.violation("edit_tie_%d" % diffs, data, found=False)

    # ------------------------------------------------------------------------------------------------------------------
    # 4. end to end: what is really written to the source file
    file_stage(rep, rng, actors, quick)

    rep.assumptions += [
        "attribute paths are single identifiers; `key = literal` where a list is expected and a bare `file` next to other elements are outside the documented grammar (only model = code is required there)",
        "method / trait names of one generated struct are pairwise distinct (checked on every full model of the run)",
        "impl blocks inside the documented envelope (<= 3 user methods here; no typed self receivers, no cfg attributes, no char literals in the source file: F8)",
        "projection: item kind (definition / inherent impl / trait impl), owner type, method and trait NAMES and their order; bodies, signatures, doc attributes are not compared",
    ]


def file_stage(rep, rng, actors, quick):
    """real `actor` entry point with file = <scratch file>: the block inserted into the file holds exactly the file-marked parts"""
    work = os.path.join(CACHE, "work", "c15_files_%d" % os.getpid())
    shutil.rmtree(work, ignore_errors=True)
    os.makedirs(work, exist_ok=True)
    n = 40 if quick else 300
    cases = []
    tries = 0
    while len(cases) < n and actors and tries < 50 * n:
        tries += 1
        m = actors[tries % len(actors)]
        e = es.gen_edit(rng, m["parts"][0], m["parts"][1])
        o = es.oracle_spec(e)
        if not isinstance(o, dict):
            continue
        sp = [es.oracle_split(o[k], p) for k, p in (("script", m["parts"][0]), ("live", m["parts"][1]))]
        if None in sp:
            continue
        active = "file" in es.meta_text(es.to_meta(e))     # some file wrapper is written (methods named `file` aside)
        if any(n == "file" for p in m["parts"] for n in p["mets"] + p["trts"]):
            continue
        if not active and len([c for c in cases if not c["active"]]) >= n // 8:
            continue
        path = os.path.join(work, "f%d.rs" % len(cases))
        attr = attr_join('file = "%s"' % path, m["base"], es.meta_text(es.to_meta(e)))
        src = "pub struct A;\n\n#[interthread::actor(%s)]\n%s\n\nfn tail() {}\n" % (attr, m["item"])
        open(path, "w").write(src)
        cases.append({"m": m, "e": e, "attr": attr, "path": path, "src": src, "sp": sp, "active": active, "remove": o["remove"]})
    if not cases:
        return
    res = hook.run_parallel([("actor", [c["attr"], c["m"]["item"]]) for c in cases], tag="c15f", shards=8)
    if res is None:
        raise Infra("file batch timed out")
    bad = 0
    for c, (cls, f) in zip(cases, res):
        rep.evaluations += 1
        rep.count("file_stage", "active" if c["active"] else "inactive")
        after = open(c["path"]).read()
        types = c["m"]["types"]
        why = ""
        if cls != "TOKENS":
            why = "legal file specification not expanded: %s %s" % (cls, (f[0] if f else "")[:300])
        elif not c["active"]:
            if after != c["src"]:
                why = "no part is file-marked but the source file was rewritten"
        else:
            mt = re.search(r"/\*\r?\n(.*?)\r?\n// \*///", after, re.S)
            if mt is None:
                why = "file-marked parts but no inserted block found in the source file"
            else:
                rec = es.recognise(mt.group(1))
                if rec is None:
                    why = "inserted block not recognised: " + mt.group(1)[:300]
                else:
                    got = es.parts_by_type(rec, types)
                    foreign = [t for _, t, _ in rec if t not in types]
                    for t, (em, wh, fi), g in zip(types, c["sp"], got):
                        if es.part_items(g, True) != es.part_items(fi, True):
                            why = "%s: written to the file %s, expected exactly the file-marked parts %s" % (t, es.part_items(g, True), es.part_items(fi, True))
                    if foreign:
                        why = "items of other types written: %s" % foreign
            # the emitted code of the same run: full model minus the named parts
            if not why:
                rec = es.recognise(f[0])
                if rec is None:
                    why = "expansion not recognised"
                else:
                    rec = [x for x in rec if x[1] in types][0:]      # drop the user's own impl block (type A)
                    got = es.parts_by_type(rec, types)
                    for t, (em, wh, fi), g in zip(types, c["sp"], got):
                        if es.part_items(g) != es.part_items(em):
                            why = "%s: emitted %s, expected %s" % (t, es.part_items(g), es.part_items(em))
        rep.nontrivial.add(("file", c["active"], c["remove"]))
        if rep.oblige(not why):
            continue
        bad += 1
        if bad <= 3:
            rep.violation("file_%d" % bad, {"what": "the real macro violates C15 (file part): " + why, "attr": c["attr"], "item": c["m"]["item"],
                                            "source_before": c["src"], "source_after": after[:3000], "expected": [es.part_items(fi, True) for _, _, fi in c["sp"]]}, found=True)
    shutil.rmtree(work, ignore_errors=True)
