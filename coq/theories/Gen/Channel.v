(* Generator side of C08: how the `channel` option becomes a channel constructor (src/model/attribute/actor.rs:112-120,
   src/model/argument/channel.rs:106-194), with the documented meaning as spec. *)
From Coq Require Import List String NArith Bool.
Import ListNotations.
From IT Require Import Sdpl.IR Sdpl.Elab.
Open Scope string_scope.

Inductive chan := Unbounded | Buffer (n : N).

(* parse_shared_options, `channel = k`: Buffer when k > 0, Unbounded when k = 0 (an explicit 0 overrides an inherited buffer) *)
Definition apply_channel_option (cur : chan) (opt : option N) : chan :=
  match opt with None => cur | Some k => if (0 <? k)%N then Buffer k else Unbounded end.
(* actor: default Unbounded; family member: the prototype is the family's parsed value, then the member's own option *)
Definition actor_chan (opt : option N) : chan := apply_channel_option Unbounded opt.
Definition member_chan (family_opt member_opt : option N) : chan := apply_channel_option (actor_chan family_opt) member_opt.

(* MpscChannel::new: constructor path and capacity argument per lib *)
Definition mpsc_ctor (l : lib) (c : chan) : chan_ctor :=
  match c, l with
  | Unbounded, Std => ChUnbounded "std::sync::mpsc::channel"
  | Unbounded, Tokio => ChUnbounded "tokio::sync::mpsc::unbounded_channel"
  | Unbounded, AsyncStd => ChUnbounded "async_std::channel::unbounded"
  | Unbounded, Smol => ChUnbounded "async_channel::unbounded"
  | Buffer n, Std => ChBounded n "std::sync::mpsc::sync_channel"
  | Buffer n, Tokio => ChBounded n "tokio::sync::mpsc::channel"
  | Buffer n, AsyncStd => ChBounded n "async_std::channel::bounded"
  | Buffer n, Smol => ChBounded n "async_channel::bounded"
  | _, LibOther => ChOther "?"
  end.

(* ---- documented meaning ---- *)
Definition spec_cap (family_opt member_opt : option N) : option N :=
  match member_opt with
  | Some k => if (0 <? k)%N then Some k else None
  | None => match family_opt with Some k => if (0 <? k)%N then Some k else None | None => None end
  end.
Definition cap_of_chan (c : chan) : option N := match c with Unbounded => None | Buffer n => Some n end.
Definition cap_of_ctor (c : chan_ctor) : option N := match c with ChBounded n _ => Some n | _ => None end.

(* `channel = n` (n > 0) gives capacity n, `channel = 0` or absent gives an unbounded channel *)
Theorem option_to_cap : forall opt, cap_of_chan (actor_chan opt) = spec_cap None opt.
Proof. intros [k|]; cbn; [destruct (0 <? k)%N|]; reflexivity. Qed.

(* a member inherits the family's value unless it states its own, and its own value - 0 included - overrides *)
Theorem member_inherit_override : forall f m, cap_of_chan (member_chan f m) = spec_cap f m.
Proof.
  intros [f|] [m|]; cbn; try destruct (0 <? m)%N; try destruct (0 <? f)%N; reflexivity.
Qed.

(* the constructor table keeps the capacity and names the bounded / unbounded constructor of the chosen runtime *)
Theorem ctor_table : forall l c, l <> LibOther -> cap_of_ctor (mpsc_ctor l c) = cap_of_chan c.
Proof. intros [] []; cbn; congruence. Qed.
Theorem ctor_kind : forall l c, l <> LibOther ->
  match mpsc_ctor l c, c with ChUnbounded _, Unbounded => True | ChBounded n _, Buffer n' => n = n' | _, _ => False end.
Proof. intros [] []; cbn; intros; try congruence; auto. Qed.

Example override_zero : spec_cap (Some 3%N) (Some 0%N) = None /\ cap_of_chan (member_chan (Some 3%N) (Some 0%N)) = None.
Proof. split; reflexivity. Qed.

(* the tie: the constructor a real expansion uses is the one this model predicts for the options it was given *)
Definition chan_ctor_eqb (a b : chan_ctor) : bool :=
  match a, b with
  | ChUnbounded p, ChUnbounded q => String.eqb p q
  | ChBounded n p, ChBounded k q => N.eqb n k && String.eqb p q
  | _, _ => false end.
Definition ctor_matches (m : model) (family_opt member_opt : option N) : bool :=
  match ctor_of m with
  | Some c => match cb_chan c with Some ch => chan_ctor_eqb ch (mpsc_ctor (m_lib m) (member_chan family_opt member_opt)) | None => false end
  | None => false end.
