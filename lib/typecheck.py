"""rustc as the oracle for trait facts (C11): compile generated programs that apply the real macro next to type-level probes
(`assert_send::<Live<..>>()`, `assert_clone`, `assert_send_fut(handle.method())`, `tokio::spawn(..)`) and report, per probe,
whether rustc accepted it.  One probe = one source line; a diagnostic is attributed to the probe whose line its primary span hits,
every other error is a `stray` error of the program (generated code that does not compile)."""
import os, json, shutil, subprocess, hashlib
from concurrent.futures import ThreadPoolExecutor
from common import VERIF, CACHE, Infra, sh

REPO = os.environ.get("VERIF_REPO", "/repo")
TPL = os.path.join(VERIF, "harness", "typecheck")
BASE = os.path.join(CACHE, "typecheck", "base")
TARGET = os.path.join(CACHE, "typecheck_target")
WORK = os.path.join(CACHE, "typecheck", "work")
CRATES = {"interthread": "interthread", "tokio": "tokio", "async_std": "async-std", "smol": "smol", "async_channel": "async-channel", "oneshot": "oneshot"}
_ext = {}


def build_base():
    """build the dependency artifacts (and the macro from $VERIF_REPO's current tree); returns list of --extern args"""
    if "args" in _ext:
        return _ext["args"]
    os.makedirs(os.path.join(BASE, "src"), exist_ok=True)
    toml = open(os.path.join(TPL, "Cargo.toml.in")).read().replace("@REPO@", REPO)
    p = os.path.join(BASE, "Cargo.toml")
    if not os.path.exists(p) or open(p).read() != toml:
        open(p, "w").write(toml)
    shutil.copyfile(os.path.join(TPL, "src", "lib.rs"), os.path.join(BASE, "src", "lib.rs"))
    lock = os.path.join(REPO, "Cargo.lock")
    if os.path.exists(lock) and not os.path.exists(os.path.join(BASE, "Cargo.lock")):
        shutil.copyfile(lock, os.path.join(BASE, "Cargo.lock"))
    env = dict(os.environ, CARGO_NET_OFFLINE="true", CARGO_TARGET_DIR=TARGET)
    env.pop("CARGO", None)
    r = subprocess.run(["cargo", "build", "--offline", "--message-format=json", "--manifest-path", p], stdout=subprocess.PIPE, stderr=subprocess.PIPE, text=True, env=env, timeout=1500)
    if r.returncode != 0:
        raise Infra("typecheck base build failed:\n" + r.stderr[-4000:])
    found = {}
    for l in r.stdout.splitlines():
        try:
            d = json.loads(l)
        except Exception:
            continue
        if d.get("reason") != "compiler-artifact":
            continue
        nm = d["target"]["name"].replace("-", "_")
        if nm in CRATES:
            for f in d["filenames"]:
                if f.endswith(".rlib") or f.endswith(".so"):
                    found[nm] = f
    missing = [c for c in CRATES if c not in found]
    if missing:
        raise Infra("typecheck base: artifacts not found for %s" % missing)
    args = []
    for nm, f in sorted(found.items()):
        args += ["--extern", "%s=%s" % (nm, f)]
    _ext["args"] = args
    return args


def compile_program(src, tag):
    """src: Rust source (a lib crate). Returns list of diagnostics: dict(level, code, message, line) (errors only)"""
    ext = build_base()
    os.makedirs(WORK, exist_ok=True)
    d = os.path.join(WORK, "%s_%s" % (tag, hashlib.sha1(src.encode()).hexdigest()[:12]))
    os.makedirs(d, exist_ok=True)
    f = os.path.join(d, "prog.rs")
    open(f, "w").write(src)
    env = dict(os.environ, CARGO_MANIFEST_DIR=BASE)
    cmd = ["rustc", "--edition", "2021", "--crate-type", "lib", "--emit", "metadata", "--error-format=json", "--cap-lints", "allow", "--out-dir", d,
           "-L", "dependency=" + os.path.join(TARGET, "debug", "deps")] + ext + [f]
    try:
        r = subprocess.run(cmd, stdout=subprocess.PIPE, stderr=subprocess.PIPE, text=True, env=env, timeout=600, cwd=d)
    except subprocess.TimeoutExpired:
        raise Infra("rustc timed out on " + f)
    diags = []
    for l in r.stderr.splitlines():
        try:
            j = json.loads(l)
        except Exception:
            continue
        if j.get("level") not in ("error", "error: internal compiler error"):
            continue
        if j.get("message", "").startswith("aborting due to"):
            continue
        lines = [s["line_start"] for s in j.get("spans", []) if s.get("is_primary") and s.get("file_name", "").endswith("prog.rs")]
        # follow macro expansion back to the call site in prog.rs
        if not lines:
            for s in j.get("spans", []):
                e = s.get("expansion")
                while e:
                    sp = e.get("span", {})
                    if sp.get("file_name", "").endswith("prog.rs"):
                        lines.append(sp["line_start"])
                        break
                    e = sp.get("expansion")
        diags.append({"code": (j.get("code") or {}).get("code"), "message": j.get("message", "")[:400], "line": lines[0] if lines else None,
                      "rendered": (j.get("rendered") or "")[:1200]})
    ok = r.returncode == 0
    if not ok and not diags:
        raise Infra("rustc failed without diagnostics:\n" + r.stderr[-3000:])
    shutil.rmtree(d, ignore_errors=True)
    return ok, diags


class Program(object):
    """a source file under construction: free text + probes (one line each)"""

    def __init__(self):
        self.lines = []
        self.probes = {}      # line number (1-based) -> probe id

    def add(self, text):
        for l in text.split("\n"):
            self.lines.append(l)

    def probe(self, pid, line):
        assert "\n" not in line
        self.lines.append(line)
        self.probes[len(self.lines)] = pid

    def source(self):
        return "\n".join(self.lines) + "\n"


def run_programs(progs, workers=8):
    """progs: list of Program. Returns per program (probe id -> None (accepted) | diagnostic dict, stray diagnostics)"""
    build_base()

    def one(ip):
        i, p = ip
        ok, diags = compile_program(p.source(), "p%d" % i)
        res = {pid: None for pid in p.probes.values()}
        stray = []
        for dg in diags:
            pid = p.probes.get(dg["line"])
            if pid is None:
                stray.append(dg)
            elif res[pid] is None:
                res[pid] = dg
        return res, stray
    with ThreadPoolExecutor(workers) as ex:
        return list(ex.map(one, enumerate(progs)))
