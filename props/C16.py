"""C16 -- write-to-file touches only the macro's file markers and inserts the code once."""
import os, re, random, json, shutil
from concurrent.futures import ThreadPoolExecutor
import hook, inst
import c16_gen as G
from common import *

PID = "C16"
RULE = ("H-tie: real ActiveTextParser / parse_args+file_in_edit_family / edit_remove_active_file_args / is_active vs the Coq models "
        "Text/Atp.v Text/Nested.v on generated scanner texts and attribute texts; end-to-end: real `actor` expansion with file = scratch "
        "copy of a generated source file vs Text/Assemble.v e2e_model and vs the declarative oracle (byte frame, marker-only attribute "
        "change, block directly after the impl, result parses, second run writes nothing); non-trivial = distinct (lexical feature set, "
        "edit shape, attribute layout) classes")
IMP = ("From Coq Require Import List String Ascii.\nImport ListNotations.\nFrom IT Require Import Text.Atp Text.Nested Text.Assemble.\n"
       "Open Scope string_scope.\n")
HDR = "//++++++++++++++++++[ Interthread  Write to File ]+++++++++++++++++//"
FTR = "// *///.............[ Interthread  End of Write  ].................//"
SCRATCH = os.path.join(CACHE, "c16")


def cs(x):
    """Coq string literal keeping newlines / tabs"""
    for ch in x:
        o = ord(ch)
        if not (32 <= o <= 126 or ch in "\n\t"):
            raise Infra("non-ASCII text reached the ASCII model: %r" % x[:80])
    return '"' + x.replace('"', '""') + '"'


def clist(xs):
    return "[" + "; ".join(cs(x) for x in xs) + "]"


def cbool(b):
    return "true" if b else "false"


def batches(xs, n):
    for i in range(0, len(xs), n):
        yield i, xs[i:i + n]


def norm(x):
    return x.replace("\r\n", "\n")


def same_mod_final_nl(a, b):
    return a == b or a + "\n" == b or a == b + "\n"


def is_subseq(a, b):
    it = iter(b)
    return all(ch in it for ch in a)


# ------------------------------------------------------------------------------------------------ 1. scanner tie
def scanner_tie(rep, rng):
    n_safe, n_wild = (360, 40) if rep.tier == "quick" else (3600, 240)
    texts = []
    for k in range(n_safe + n_wild):
        safe = k < n_safe
        while True:
            ls = G.gen_lines(rng, safe)
            t = "\n".join(ls)
            if not safe or not G.known_classes(t):
                break
        texts.append((ls, safe))
    # wild texts may hang the scanner: watchdog of 400 ms, own small shards
    res = hook.run_parallel([("fn:atp_lines_wd", ["", "\n".join(ls), "400"]) for ls, _ in texts], tag="c16atp", shards=8, timeout=300)
    if res is None:
        rep.oblige(False)
        rep.violation("atp_batch_timeout", {"what": "scanner batch did not come back although every job runs under a watchdog"}, found=False)
        return
    items, meta = [], []
    for k, ((ls, safe), (cls, fields)) in enumerate(zip(texts, res)):
        rep.evaluations += 1
        t = "\n".join(ls)
        kcls = G.known_classes(t)
        rep.count("scanner_text", "safe" if safe else ("wild:" + ",".join(kcls) if kcls else "wild:none"))
        if cls != "VALUE":
            rep.oblige(False)
            rep.violation("atp_panic_%d" % k, {"what": "scanner panicked", "text": t, "class": cls, "output": fields[:1]}, found=not kcls)
            continue
        real = fields
        hang = bool(real) and real[-1].startswith("TIMEOUT ")
        in_lines = [l for l in t.split("\n")]
        if in_lines and in_lines[-1] == "":
            in_lines = in_lines[:-1]
        if hang:
            k_hang = int(real[-1].split()[1])
            items.append(("a%d" % k, "match atp_out %s with inr n => Nat.eqb n %d | inl _ => false end" % (clist(in_lines), k_hang)))
        else:
            items.append(("a%d" % k, "atp_check %s %s" % (clist(in_lines), clist(real))))
        meta.append((k, t, in_lines, real, hang, kcls, safe))
        feats = tuple(sorted(set(kind for kind, _, _ in G.ref_segments(t))))
        rep.nontrivial.add(("scan", feats, hang))
        if k % 97 == 0:
            rep.sample({"scanner_text": t, "real": real})
    vals = {}
    for i, part in batches(items, 450):
        vals.update(inst.coq_values("C16_atp_%d" % i, IMP, part))
    rep.checker_cmds.append("coqc generated/C16_atp_*.v (atp_check = model output equals real scanner output)")
    for (k, t, in_lines, real, hang, kcls, safe) in meta:
        agree = vals["a%d" % k] == "true"
        # declarative oracle on the REAL output (only for texts outside the known classes): termination, same length,
        # and the structural characters visible to the item search are exactly those outside comments / literals
        oracle_ok = True
        why = ""
        wf = G.ref_wellformed(t)
        rep.count("scanner_text_wellformed", str(wf))
        for fc, pred in G.FIXED_CLASSES:
            if pred(t):
                rep.count("scanner_regression_input", fc)
        if hang:
            # C16_atp_terminates: the repaired scanner returns on every line (recurrence of F8 = failing input)
            oracle_ok, why = False, "scanner does not terminate"
        elif not kcls and wf:
            joined = "\n".join(real)
            ref = G.ref_blank("\n".join(in_lines))
            if len(joined) != len(ref):
                oracle_ok, why = False, "scanned text changes length"
            elif G.visible_structure(t, joined) != G.visible_structure(t, ref):
                oracle_ok, why = False, "structural characters visible to the item search differ from the reference lexer"
        rep.oblige(agree and oracle_ok)
        if agree and oracle_ok:
            continue
        if not oracle_ok:
            rep.violation("atp_oracle_%d" % k, {"what": why, "text": t, "real_scanned": real, "reference": G.ref_blank(t).split("\n"),
                                                "model_agrees_with_code": agree}, found=True)
        else:
            rep.violation("atp_drift_%d" % k, {"what": "Text/Atp.v and ActiveTextParser::parse disagree (correspondence broken); oracle holds or input in a known class",
                                               "text": t, "real_scanned": real, "known_classes": kcls}, found=False)


# ---------------------------------------------------------------------------------------------- 2. surgery tie
def mutate_tree(rng, node):
    """illegal / odd placements of `file` (the surgery must still agree with the model)"""
    nm, kind, ch = node
    if kind != "list":
        if rng.random() < 0.15:
            return ("file", "list", [node])
        return node
    ch = [mutate_tree(rng, c) for c in ch]
    if rng.random() < 0.1:
        ch.append(("file", "path", None))
    return (nm, kind, ch)


def surgery_tie(rep, rng):
    n = 260 if rep.tier == "quick" else 2400
    cases = []
    for k in range(n):
        methods = rng.sample(G.METHS, rng.randint(1, 3))
        r = rng.random()
        edit, remove = G.gen_edit(rng, methods)
        legal = True
        if r < 0.12:      # not active
            edit = G.strip_file(edit)
            if edit[1] != "list":
                edit = ("edit", "path", None)
        elif r < 0.3:
            edit = mutate_tree(rng, edit)
            legal = False
        fam = rng.random() < 0.25
        path = rng.choice(["interthread::actor", "actor", "act"]) if not fam else "interthread::family"
        args = [("file", "kv", '"src/m%d.rs"' % k)]
        if rng.random() < 0.4:
            args.append(("channel", "kv", "2"))
        if fam:
            mem = ("actor", "list", [("first_name", "kv", '"U"'), edit] if rng.random() < 0.7 else [("first_name", "kv", '"U"')])
            args.append(mem)
            if rng.random() < 0.5:
                e2, _ = G.gen_edit(rng, methods)
                args.append(("actor", "list", [("first_name", "kv", '"V"'), e2]))
            if rng.random() < 0.4:
                args.insert(rng.randint(0, len(args)), ("edit", "list", [("file", "path", None)]) if rng.random() < 0.5 else ("edit", "path", None))
            legal = False   # family edit semantics are C15's business; here only model = code
        else:
            args.insert(rng.randint(0, len(args)), edit)
        multi = rng.random() < 0.6
        attr = "#[" + G.render_meta(rng, (path, "list", args), nl=multi, comment=multi and rng.random() < 0.4) + "]"
        if G.cls_edit_file_trailing_comma(attr):
            rep.count("surgery_regression_input", "edit-file-trailing-comma")     # repaired (3f6203d): part of the legal corpus
        if G.cls_file_list_trailing_comma(attr):
            rep.count("surgery_regression_input", "file-list-trailing-comma")
        cases.append({"attr": attr, "legal": legal, "fam": fam, "active_expected": None})
    jobs = []
    for c in cases:
        c["actv"] = G.ref_blank(c["attr"])
        c["attr1"] = c["attr"]      # split_file hands exactly the attribute bytes to the surgery
        jobs += [("fn:edit_remove", ["", c["actv"], c["attr1"]]), ("fn:file_ranges", ["", c["actv"]]), ("fn:attr_string", ["", c["attr"]])]
    res = hook.run_parallel(jobs, tag="c16sur", shards=8, timeout=300)
    if res is None:
        raise Infra("surgery batch timed out")
    items = []
    for k, c in enumerate(cases):
        r_rm, r_rg, r_as = res[3 * k:3 * k + 3]
        c["rm"], c["rg"], c["as"] = r_rm, r_rg, r_as
        rep.evaluations += 1
        if r_rm[0] == "VALUE":
            items.append(("r%d" % k, "edit_remove_check %s %s %s" % (cs(c["actv"]), cs(c["attr1"]), cs(r_rm[1][0]))))
        else:
            items.append(("r%d" % k, "match edit_remove (s2l %s) (s2l %s) with None => true | Some _ => false end" % (cs(c["actv"]), cs(c["attr1"]))))
        if r_rg[0] == "VALUE":
            pairs = re.findall(r"\((\d+), (\d+)\.\.(\d+)\)", r_rg[1][0])
            want = "Some [" + "; ".join("(%s, %s)" % (a, b) for _, a, b in pairs) + "]"
            items.append(("g%d" % k, "ranges_plain %s" % cs(c["actv"])))
            c["want_ranges"] = want
        else:
            items.append(("g%d" % k, "ranges_plain %s" % cs(c["actv"])))
            c["want_ranges"] = "None"
        if r_as[0] == "VALUE":
            items.append(("s%d" % k, "is_active_str (s2l %s)" % cs(r_as[1][0])))
            items.append(("p%d" % k, "match parse_line None (s2l %s) with Done _ c => str_eqb c (s2l %s) | OutOfFuel => false end" % (cs(r_as[1][0]), cs(r_as[1][1]))))
    vals = {}
    for i, part in batches(items, 400):
        vals.update(inst.coq_values("C16_sur_%d" % i, IMP, part))
    rep.checker_cmds.append("coqc generated/C16_sur_*.v (edit_remove / file_ranges / is_active: model = code)")
    second = []
    for k, c in enumerate(cases):
        tree = None
        try:
            tree = G.parse_meta(G.attr_tokens(c["attr"]))
        except Exception:
            pass
        shape = (c["fam"], c["legal"], c["rm"][0], len(re.findall(r"file", c["attr"])), "\n" in c["attr"], "//" in c["attr"])
        rep.nontrivial.add(("surgery",) + shape)
        rep.count("surgery_case", "family" if c["fam"] else ("legal" if c["legal"] else "odd-file-placement"))
        ok_rm = vals["r%d" % k] == "true"
        ok_rg = vals["g%d" % k].replace(" ", "") == c["want_ranges"].replace(" ", "")
        ok_as = True
        if c["as"][0] == "VALUE":
            ok_as = vals["s%d" % k] == "Some " + c["as"][1][2] and vals["p%d" % k] == "true"
        # oracle on the real output for legal actor specifications: only the markers go away
        oracle_ok, why = True, ""
        if c["legal"] and tree is not None:
            if c["rm"][0] != "VALUE":
                oracle_ok, why = False, "surgery panicked on a legal specification"
            else:
                out = c["rm"][1][0]
                if not is_subseq(out, c["attr1"]):
                    oracle_ok, why = False, "surgery output is not the attribute with characters deleted"
                else:
                    try:
                        got = G.parse_meta(G.attr_tokens(out))
                    except Exception:
                        got = None
                    if got != G.strip_file(tree):
                        oracle_ok, why = False, "attribute after surgery is not the specification with its file markers removed"
                    else:
                        second.append((k, out))
        rep.oblige(ok_rm and ok_rg and ok_as and oracle_ok)
        if k % 61 == 0:
            rep.sample({"attribute": c["attr"], "after_surgery": c["rm"][1][0] if c["rm"][0] == "VALUE" else c["rm"][0]})
        if ok_rm and ok_rg and ok_as and oracle_ok:
            continue
        if not oracle_ok:
            rep.violation("surgery_oracle_%d" % k, {"what": why, "attr": c["attr"], "scanned": c["actv"], "observed": c["rm"], "expected_tree": G.strip_file(tree)}, found=True)
        else:
            rep.violation("surgery_drift_%d" % k, {"what": "Text/Nested.v and src/parse/nested.rs disagree", "attr": c["attr"], "scanned": c["actv"],
                                                   "edit_remove": [ok_rm, c["rm"]], "ranges": [ok_rg, c["rg"], vals["g%d" % k]],
                                                   "is_active": [ok_as, c["as"][1][2:] if c["as"][0] == "VALUE" else c["as"]]}, found=False)
    # idempotence on the real code: what the surgery produced is no longer file-active
    res2 = hook.run_parallel([("fn:is_active", ["", a]) for _, a in second], tag="c16idem", shards=8, timeout=300) if second else []
    if res2 is None:
        raise Infra("idempotence batch timed out")
    for (k, a), r in zip(second, res2):
        ok = r[0] == "VALUE" and r[1][0] == "false"
        rep.oblige(ok)
        if not ok:
            rep.violation("surgery_idempotent_%d" % k, {"what": "attribute is still file-active after its markers were removed (a second compilation would write again)",
                                                        "attr": cases[k]["attr"], "after": a, "is_active": r}, found=True)


# ------------------------------------------------------------------------------------------------ 3. end to end
def split_block(out):
    """(rest, block position, obj line, init line, code) of a rewritten file, or a reason"""
    if out.count(HDR) != 1 or out.count(FTR) != 1:
        return "the marker block is not present exactly once (header %d, footer %d)" % (out.count(HDR), out.count(FTR))
    hs = out.index(HDR)
    fe = out.index(FTR) + len(FTR)
    if out[hs - 2:hs] != "\n\n" or out[fe:fe + 1] != "\n":
        return "block not delimited by line terminators"
    inner = out[hs + len(HDR):out.index(FTR)]
    m = re.match(r"\n(// Object        : [^\n]*\n)(// Initiated By  : [^\n]*\n)\n/\*\n(.*)\n\Z", inner, re.S)
    if not m:
        return "block layout not recognised"
    return out[:hs - 2] + out[fe + 1:], hs - 2, m.group(1), m.group(2), m.group(3)


def e2e_oracle(c, after):
    """the property's declarative demands on one rewritten file; returns (ok, reason, new attribute text)"""
    src0 = norm(c["src"])
    out = norm(after)
    sb = split_block(out)
    if isinstance(sb, str):
        return False, sb, None
    rest, bpos, obj, init, code = sb
    a0, a1, i1 = c["a0"], c["a1"], c["i1"]
    if rest[:a0] != src0[:a0]:
        return False, "bytes before the attribute changed", None
    tail0 = src0[a1:]
    if c["remove"]:
        got_tail = rest[a0:]
        if same_mod_final_nl(got_tail, tail0):
            newattr, eaten = "", 0
        elif tail0[:1].isspace() and same_mod_final_nl(got_tail, tail0[1:]):
            newattr, eaten = "", 1
        else:
            return False, "edit(file): the attribute is not removed exactly (or bytes after it changed)", None
    else:
        t0 = tail0 if rest.endswith(tail0) else tail0[:-1]
        if not (rest.endswith(t0) and tail0 in (t0, t0 + "\n")):
            return False, "bytes after the attribute changed", None
        newattr, eaten = rest[a0:len(rest) - len(t0)], 0
        if not is_subseq(newattr, c["attr"]):
            return False, "new attribute is not the old one with characters deleted", newattr
        try:
            got = G.parse_meta(G.attr_tokens(newattr))
        except Exception:
            return False, "new attribute does not parse", newattr
        if got != G.strip_file(G.parse_meta(G.attr_tokens(c["attr"]))):
            return False, "attribute differs by more than the removal of its file markers", newattr
    want_bpos = a0 + len(newattr) + (i1 - a1) - eaten
    if bpos != want_bpos:
        return False, "block not directly after the annotated impl (at %d, impl ends at %d)" % (bpos, want_bpos), newattr
    if "Initiated By" not in init or re.sub(r"\s", "", c["attr"].split("//")[0][:20]) not in re.sub(r"\s", "", init):
        pass
    return True, "", newattr


def run_e2e_cases(rep, cases, tag):
    """runs the real macro on each case's scratch file; fills c['cls'], c['msg'], c['after']"""
    jobs = [("actor", [c["attr_args"], c["item"]]) for c in cases]
    res = hook.run_parallel(jobs, tag=tag, shards=8, timeout=240)
    if res is None:
        return False
    for c, (cls, f) in zip(cases, res):
        c["cls"], c["msg"] = cls, (f[0] if f else "")
        c["after"] = open(c["path"]).read()
    return True


def e2e(rep, rng):
    n = 72 if rep.tier == "quick" else 640
    shutil.rmtree(SCRATCH, ignore_errors=True)
    os.makedirs(SCRATCH, exist_ok=True)
    cases = []
    for k in range(n):
        p = os.path.join(SCRATCH, "f%d.rs" % k)
        while True:
            c = G.gen_file_case(rng, p, safe=True)
            if not G.known_classes(c["src"]):
                break
        if rng.random() < 0.12:
            c["src_disk"] = c["src"].replace("\n", "\r\n")
        else:
            c["src_disk"] = c["src"]
        open(p, "w", newline="").write(c["src_disk"])
        cases.append(c)
    if not run_e2e_cases(rep, cases, "c16e2e"):
        rep.oblige(False)
        rep.violation("e2e_hang", {"what": "an end-to-end batch outside the known hang classes did not terminate",
                                   "files": SCRATCH}, found=False)
        return
    items, second, parse_jobs = [], [], []
    for k, c in enumerate(cases):
        rep.evaluations += 1
        feats = tuple(sorted(set(kind for kind, _, _ in G.ref_segments(c["src"]))))
        rep.nontrivial.add(("e2e", c["form"], c["remove"], c["multi"], c["sep"] == "\n", len(c["others"]), "\r" in c["src_disk"], len(feats)))
        rep.count("e2e_edit", "edit(file)" if c["remove"] else "markers")
        rep.count("e2e_macro_path", c["form"])
        rep.count("e2e_line_endings", "crlf" if "\r" in c["src_disk"] else "lf")
        for fc, pred in G.FIXED_CLASSES:
            if pred(c["src"]):
                rep.count("e2e_regression_input", fc)
        if c["sep"] == "":
            rep.count("e2e_regression_input", "attr-directly-followed" + (":edit(file)" if c["remove"] else ""))
        if G.cls_file_list_trailing_comma(c["attr"]):
            rep.count("e2e_regression_input", "file-list-trailing-comma")
        if c["cls"] != "TOKENS":
            ok = c["after"] == c["src_disk"]
            rep.oblige(False)
            rep.violation("e2e_refused_%d" % k, {"what": "a legal file outside the known classes was not rewritten (file %s)" % ("left untouched" if ok else "CHANGED"),
                                                 "source": c["src_disk"], "attr": c["attr"], "item": c["item"], "diagnostic": c["msg"][:600]}, found=True)
            continue
        ok, why, newattr = e2e_oracle(c, c["after"])
        c["oracle"], c["newattr"] = ok, newattr
        rep.oblige(ok)
        if not ok:
            rep.violation("e2e_oracle_%d" % k, {"what": why, "source": c["src_disk"], "attr": c["attr"], "item": c["item"], "observed": c["after"]}, found=True)
            continue
        if k % 23 == 0:
            rep.sample({"attr": c["attr"], "new_attr": newattr, "file_bytes": len(c["src"]), "remove": c["remove"]})
        # model side: Text/Assemble.v e2e_model on the LF-joined text, block content taken from the real output
        src0 = norm(c["src"])
        lf = "\n".join(src0.split("\n")[:-1]) if src0.endswith("\n") else src0
        _, _, obj, init, code = split_block(norm(c["after"]))
        items.append(("e%d" % k, "e2e_check %s %d %d %d %s %s %s %s %s" % (cs(lf), c["a0"], c["a1"], c["i1"], cbool(c["remove"]), cs(obj), cs(init), cs(code), cs(norm(c["after"])))))
        parse_jobs.append((k, ("fn:syn_file", ["", c["after"]])))
        if not c["remove"]:
            inner = newattr[newattr.index("(") + 1:newattr.rindex(")")]
            second.append((k, ("actor", [inner, c["item"]])))
    vals = {}
    for i, part in batches(items, 60):
        vals.update(inst.coq_values("C16_e2e_%d" % i, IMP, part))
    rep.checker_cmds.append("coqc generated/C16_e2e_*.v (e2e_check: scanner + surgery + assembly model output = rewritten file)")
    for tag, v in vals.items():
        k = int(tag[1:])
        ok = v == "true"
        rep.oblige(ok)
        if not ok:
            c = cases[k]
            rep.violation("e2e_drift_%d" % k, {"what": "Text/Assemble.v e2e_model differs from the real rewrite although the oracle accepts the real output",
                                               "source": c["src_disk"], "attr": c["attr"], "observed": c["after"]}, found=False)
    # the result still parses (syn) and a second compilation writes nothing more
    pres = hook.run_parallel([j for _, j in parse_jobs], tag="c16syn", shards=8, timeout=240) or []
    for (k, _), r in zip(parse_jobs, pres):
        ok = r[0] == "VALUE" and r[1][0] == "ok"
        rep.oblige(ok)
        if not ok:
            c = cases[k]
            rep.violation("e2e_parse_%d" % k, {"what": "the rewritten file no longer parses", "source": c["src_disk"], "attr": c["attr"], "observed": c["after"], "syn": r}, found=True)
    before2 = {k: open(cases[k]["path"]).read() for k, _ in second}
    sres = hook.run_parallel([j for _, j in second], tag="c16second", shards=8, timeout=240)
    if sres is None:
        rep.oblige(False)
        rep.violation("e2e_second_hang", {"what": "second compilation did not terminate"}, found=False)
        sres = []
    for (k, _), r in zip(second, sres):
        c = cases[k]
        now = open(c["path"]).read()
        ok = r[0] == "TOKENS" and now == before2[k]
        rep.oblige(ok)
        rep.traces += 1
        if not ok:
            rep.violation("e2e_second_%d" % k, {"what": "a second compilation with the rewritten attribute %s" % ("changed the file again" if now != before2[k] else "failed"),
                                                "source": c["src_disk"], "attr": c["attr"], "after_first": before2[k], "after_second": now, "result": [r[0], (r[1] or [""])[0][:300]]}, found=True)


# ------------------------------------------------------------------------------------------ 4. known findings
IMPL_W = "impl MyActor {\n    pub fn new(v: i8) -> Self { Self(v) }\n    pub fn inc(&mut self) { self.0 += 1; }\n%s}"


def witness(name, pre="", inimpl="", args='file="%s", edit(file(script(def)))', sep="\n", doc=""):
    p = os.path.join(SCRATCH, name + ".rs")
    a = args % p
    attr = "#[interthread::actor(%s)]" % a
    item = IMPL_W % inimpl
    before = "pub struct MyActor(i8);\n" + pre + doc
    src = before + attr + sep + item + "\nfn after() {}\n"
    open(p, "w").write(src)
    return {"name": name, "path": p, "attr_args": a, "attr": attr, "item": doc + item, "src": src, "a0": len(before), "a1": len(before) + len(attr),
            "i1": len(before) + len(attr) + len(sep) + len(item), "remove": "edit(file)" in a or "edit(file,)" in a, "sep": sep}


def witnesses():
    w = [
        ("char-blank-or-comma", witness("w_char_blank", pre="const SP: char = ' ';\n"), "hang"),
        ("char-escaped-quote", witness("w_char_escaped_quote", pre="fn q() -> [char; 2] { ['\\'','x'] }\nfn q2() -> char { '\\'' }\n"), "hang"),
        ("lifetime-unterminated", witness("w_lifetime_unterminated", pre="pub trait Tr<'a> { fn get(&self) -> Wrap<'a>;\n}\n"), "refused"),
        ("lifetime-exposes-literal", witness("w_lifetime_exposes_literal", inimpl='    pub fn name(&self) -> &\'static str { "}" }\n'), "refused"),
        ("string-trailing-backslash", witness("w_string_trailing_backslash", pre='const BS: &str = "\\\\";\n'), "refused"),
        ("edit-file-trailing-comma", witness("w_edit_file_trailing_comma", args='file="%s", edit(file,)'), "refused"),
        ("attr-directly-followed", witness("w_attr_directly_followed", args='file="%s", edit(file)', sep=""), "corrupt"),
        ("doc-comment-on-impl", witness("w_doc_on_impl", doc="/// the actor\n"), "refused"),
        ("file-list-trailing-comma", witness("w_file_list_trailing_comma", args='file="%s", edit(file(script(def),), live)'), "corrupt"),
    ]
    p2 = os.path.join(SCRATCH, "w_nested_comment.rs")
    copy = '#[interthread::actor(file="%s", edit(file(script(def))))]\n' % p2 + IMPL_W % ""
    w.append(("nested-block-comment", witness("w_nested_comment", pre="/* outer /* inner */\n" + copy + "\n*/\n"), "corrupt"))
    return w


def family_witness(name, args, remove):
    p = os.path.join(SCRATCH, name + ".rs")
    a = args % p
    attr = "#[interthread::family(%s)]" % a
    item = IMPL_W % ""
    before = "pub struct MyActor(i8);\n"
    src = before + attr + "\n" + item + "\nfn after() {}\n"
    open(p, "w").write(src)
    return {"name": name, "path": p, "attr_args": a, "attr": attr, "item": item, "src": src, "a0": len(before), "a1": len(before) + len(attr),
            "i1": len(before) + len(attr) + 1 + len(item), "remove": remove, "sep": "\n"}


def family_e2e(rep):
    """write-to-file through `family`: the attribute is cut out of the file only when every member is written as a whole; otherwise only the
    file markers go (members without a marker keep generating their code), and the block follows the impl"""
    ws = [family_witness("fam_one_member_whole", 'file="%s", actor(first_name="U", edit(file)), actor(first_name="V")', False),
          family_witness("fam_all_members_whole", 'file="%s", actor(first_name="U", edit(file)), actor(first_name="V", edit(file))', True),
          family_witness("fam_member_partial", 'file="%s", actor(first_name="U", edit(file(live))), actor(first_name="V")', False),
          family_witness("fam_two_kinds", 'file="%s", actor(first_name="U", edit(file)), actor(first_name="V", edit(live(file(def))))', False)]
    res = hook.run_parallel([("family", [c["attr_args"], c["item"]]) for c in ws], tag="c16fam", shards=4, timeout=120)
    if res is None:
        raise Infra("family e2e batch timed out")
    for c, (cls, f) in zip(ws, res):
        rep.evaluations += 1
        rep.count("family_e2e", c["name"])
        rep.nontrivial.add(("family-e2e", c["name"]))
        after = open(c["path"]).read()
        if cls != "TOKENS":
            ok, why = False, "legal family not expanded: %s %s" % (cls, (f[0] if f else "")[:200])
        else:
            ok, why, _ = e2e_oracle(c, after)
        if not rep.oblige(ok):
            rep.violation("family_e2e_" + c["name"], {"what": "family write-to-file: " + why, "source": c["src"], "attr": c["attr"], "item": c["item"], "observed": after,
                                                     "expected": "attribute removed" if c["remove"] else "attribute kept, only its `file` markers removed"}, found=True)


REPAIRED = {"char-blank-or-comma", "char-escaped-quote", "attr-directly-followed", "file-list-trailing-comma", "edit-file-trailing-comma"}


def replay_known(rep):
    listed = {f.get("class"): f for f in known_findings().get("finding", []) if f.get("property") == PID}
    ws = witnesses()

    def one(x):
        cls, c, kind = x
        r = hook.run_batch([("actor", [c["attr_args"], c["item"]])], tag="c16w_" + c["name"], timeout=12)
        return r

    with ThreadPoolExecutor(len(ws)) as ex:
        results = list(ex.map(one, ws))
    for (cls, c, kind), r in zip(ws, results):
        after = open(c["path"]).read()
        if r is None:
            status, detail = "hang", "rustc did not return within 12 s (ActiveTextParser::parse never returns)"
        elif r[0][0] != "TOKENS":
            status, detail = "refused", "legal file not rewritten: " + re.sub(r"\s+", " ", (r[0][1] or [""])[0])[:160] + ("" if after == c["src"] else " AND FILE CHANGED")
        else:
            ok, why, _ = e2e_oracle(c, after)
            status, detail = ("ok", "") if ok else ("corrupt", why)
        rep.evaluations += 1
        rep.count("known_witness", "%s:%s" % (cls, status))
        if cls in REPAIRED:
            # regression input of a repaired defect: must be rewritten correctly, a recurrence is a violation
            rep.oblige(status == "ok")
            if status != "ok":
                rep.violation("regression_%s" % cls, {"what": "repaired defect is back: " + detail, "source": c["src"], "attr": c["attr"],
                                                      "item": c["item"], "observed": after}, found=True)
            continue
        if status == "ok":
            rep.notes.append("known-finding witness %s no longer fails (class can be retired)" % cls)
            continue
        if cls in listed:
            rep.known_finding("%s: %s" % (cls, detail))
        else:
            rep.oblige(False)
            rep.violation("unlisted_%s" % cls, {"what": "witness fails and its class is not listed in known_findings.txt: " + detail,
                                                "source": c["src"], "attr": c["attr"], "item": c["item"], "observed": after}, found=True)


def run(rep):
    rng = random.Random(rep.seed)
    rep.extra["rule"] = RULE
    nthm, problems, _ = property_theorems(PID)
    rep.checker_cmds.append("make -C coq theories/Properties/C16.vo (Print Assumptions must be closed)")
    for _ in range(nthm):
        rep.oblige(not problems)
    bad = hygiene()
    rep.oblige(not bad)
    if problems or bad:
        rep.violation("theorems", {"what": "property theorem file no longer checks", "problems": problems, "hygiene": bad}, found=False)
    scanner_tie(rep, rng)
    surgery_tie(rep, rng)
    e2e(rep, rng)
    replay_known(rep)
    family_e2e(rep)
    rep.assumptions += [
        "ASCII source files and attributes (byte offsets = char offsets in the Coq text models); non-ASCII is outside the theorems' domain",
        "the item search (ItemCodeBlock::get_item_code) is modelled by its located offsets (attribute start/end, impl end), checked per case against the generator's ground truth; syn::parse_str equality inside it is not modelled",
        "generated code inside the inserted block is a parameter of the assembly model (its content belongs to C05-C15); un-commenting and compiling the block is not run",
        "source files outside the known-finding input classes: " + ", ".join(n for n, _ in G.CLASSES) + ", doc-comment-on-impl (each replayed separately); the repaired classes char-blank-or-comma, char-escaped-quote, attr-directly-followed, file-list-trailing-comma, edit-file-trailing-comma are part of every corpus and replayed as regression inputs",
        "family-level write-to-file is covered at the surgery level (attribute texts) and end to end on four fixed family witnesses (family edit parsing is F7 / C15)",
        "line terminators: CRLF input is compared after CRLF->LF normalisation, a final terminator may be dropped",
    ]
