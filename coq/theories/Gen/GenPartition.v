(* Gen/Generics.v -- model of the partition of the impl generics into script / private parameters and of the
   PhantomData fields of the Live struct (src/model/generics.rs GenWork::{new,retain,get_mod_gen},
   src/model/method/mod.rs ModelPhantomData::from, src/model/method/actor_method.rs process_met/get_mod_gen),
   as the code is after fix fdc5b8f.  Definitions only; proofs in GenericsThm.v.

   The HashMap `actor_gen_set` is modelled by a list [hm] holding its entries in *iteration order*; nothing is
   assumed about that order (every theorem quantifies over every permutation). *)
From Coq Require Import List String Bool.
Import ListNotations.
Open Scope string_scope.

Inductive pkind := KType | KLife | KConst.
(* gp_name is the text of gen_params::as_arg: the identifier, or the lifetime including its tick *)
Record gparam := { gp_kind : pkind; gp_name : string }.

Inductive mkind := MRef | MSlf | MStat.
(* one selected public method: how first_met_sort classified it, whether it has generics of its own
   (get_some_turbo is Some), and the tokens of its signature (model::to_string_wide splits at token level) *)
Record meth := { m_kind : mkind; m_localgen : bool; m_sig : list string }.

Definition nonconst (p : gparam) : bool := match gp_kind p with KConst => false | _ => true end.

(* model::includes(sig, arg) for a one-token generic argument *)
Definition includes (sig : list string) (p : gparam) : bool := existsb (String.eqb (gp_name p)) sig.

(* ImplWork::substitute_args_type_and_return_type, which process_met runs BEFORE GenWork::retain: every `Self` in a parameter type
   or in the return type is replaced by the actor type of the impl (`Self ::` by its turbofish form, which has the same
   identifier / lifetime tokens).  [self_ty] = tokens of the impl's self type, e.g. ["A"; "<"; "T"; ","; "N"; ">"].
   So a `Self` in a selected method's signature counts as a use of every parameter the self type names. *)
Definition subst_self (self_ty sig : list string) : list string :=
  flat_map (fun t => if String.eqb t "Self" then self_ty else [t]) sig.

(* GenWork::retain *)
Definition retain (hm : list gparam) (sig : list string) : list gparam := filter (fun p => negb (includes sig p)) hm.

(* process_met: only reference methods without local generics call retain *)
Definition step_retain (self_ty : list string) (hm : list gparam) (m : meth) : list gparam :=
  match m_kind m with
  | MRef => if m_localgen m then hm else retain hm (subst_self self_ty (m_sig m))
  | _ => hm
  end.

(* ImplWork::get_mod_gen: `has_self_consm_mets || has_loc_gen_mets` *)
Definition full (ms : list meth) : bool :=
  existsb (fun m => match m_kind m with MSlf => true | MRef => m_localgen m | MStat => false end) ms.

(* HashSet membership of as_arg(p) among the keys of the map *)
Definition mem_name (x : string) (hm : list gparam) : bool := existsb (fun q => String.eqb (gp_name q) x) hm.

Fixpoint enumerate {A : Type} (i : nat) (l : list A) : list (nat * A) :=
  match l with [] => [] | x :: r => (i, x) :: enumerate (S i) r end.

Record mod_gen := { mg_script : list string;            (* parameters of the Script enum *)
                    mg_private : list string;           (* parameters only the Live struct carries *)
                    mg_phantom : list (nat * string) }. (* `_i : PhantomData<arg>` fields, in field order *)

(* GenWork::get_mod_gen (parameter lists only; bounds and where-clauses are not part of this model) *)
Definition get_mod_gen (params hm : list gparam) (is_full : bool) : mod_gen :=
  if is_full then {| mg_script := map gp_name params; mg_private := []; mg_phantom := [] |}
  else
    let private := filter (fun p => mem_name (gp_name p) hm) params in
    {| mg_script := map gp_name (filter (fun p => negb (mem_name (gp_name p) hm)) params);
       mg_private := map gp_name private;
       mg_phantom := enumerate 0 (map gp_name private) |}.

(* GenWork::new followed by process_impl and get_mod_gen; [hm0] = iteration order of the fresh map *)
Definition impl_gen (params : list gparam) (self_ty : list string) (hm0 : list gparam) (ms : list meth) : mod_gen :=
  get_mod_gen params (fold_left (step_retain self_ty) ms hm0) (full ms).

(* ---- the short declarative spec: everything in declaration order ---- *)
Definition used_by (self_ty : list string) (ms : list meth) (p : gparam) : bool :=
  existsb (fun m => match m_kind m with MRef => negb (m_localgen m) && includes (subst_self self_ty (m_sig m)) p | _ => false end) ms.
Definition unused (params : list gparam) (self_ty : list string) (ms : list meth) : list gparam :=
  filter (fun p => nonconst p && negb (used_by self_ty ms p)) params.
Definition spec_gen (params : list gparam) (self_ty : list string) (ms : list meth) : mod_gen :=
  get_mod_gen params (unused params self_ty ms) (full ms).

(* ---- the code before fix fdc5b8f: PhantomData fields enumerated in HashMap iteration order ---- *)
Definition impl_gen_old (params : list gparam) (self_ty : list string) (hm0 : list gparam) (ms : list meth) : mod_gen :=
  let hm := fold_left (step_retain self_ty) ms hm0 in
  if full ms then {| mg_script := map gp_name params; mg_private := []; mg_phantom := [] |}
  else {| mg_script := map gp_name (filter (fun p => negb (mem_name (gp_name p) hm)) params);
          mg_private := map gp_name (filter (fun p => mem_name (gp_name p) hm) params);
          mg_phantom := enumerate 0 (map gp_name hm) |}.

(* ---- a hypothetical reordering of process_met: retain BEFORE the Self substitution (Self is then an opaque token) ---- *)
Definition impl_gen_retain_first (params hm0 : list gparam) (ms : list meth) : mod_gen := impl_gen params ["Self"] hm0 ms.

(* ---- where-predicates of the impl (after fix_where_private_generic): a predicate (its tokens) that mentions a private
   parameter follows that parameter onto the generated `direct` / `play` functions, every other predicate stays on the
   Script impl; with `full` generics nothing is private ---- *)
Definition mentions_private (hm : list gparam) (wp : list string) : bool := existsb (includes wp) hm.

Definition impl_private_preds (params : list gparam) (self_ty : list string) (hm0 : list gparam) (ms : list meth) (preds : list (list string)) :=
  if full ms then [] else filter (mentions_private (fold_left (step_retain self_ty) ms hm0)) preds.
Definition impl_script_preds (params : list gparam) (self_ty : list string) (hm0 : list gparam) (ms : list meth) (preds : list (list string)) :=
  if full ms then preds else filter (fun wp => negb (mentions_private (fold_left (step_retain self_ty) ms hm0) wp)) preds.

Definition spec_private_preds (params : list gparam) (self_ty : list string) (ms : list meth) (preds : list (list string)) :=
  if full ms then [] else filter (mentions_private (unused params self_ty ms)) preds.
Definition spec_script_preds (params : list gparam) (self_ty : list string) (ms : list meth) (preds : list (list string)) :=
  if full ms then preds else filter (fun wp => negb (mentions_private (unused params self_ty ms) wp)) preds.
