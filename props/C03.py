"""C03 -- each accepted call runs exactly once and its caller gets its own reply."""
import random
import rt_common, probe, gen_impl
PID = "C03"


def run(rep):
    rng = random.Random(rep.seed)
    rep.extra["rule"] = "instances = real expansions for lib x channel x debut x impl blocks with all call kinds; non-trivial = distinct (lib, channel, debut, model) classes"
    rt_common.run_runtime(rep, PID, "wf_C03",
        ["fun (A V : Type) sem sem_slf dv => @C03_exactly_once A V sem sem_slf dv {i} {w}",
         "fun (A V : Type) sem sem_slf dv => @C03_same_arguments A V sem sem_slf dv {i} {w}",
         "fun (A V : Type) sem sem_slf dv => @C03_own_reply A V sem sem_slf dv {i} {w}",
         "fun (A V : Type) sem sem_slf dv => @C03_reply_reaches_waiter A V sem sem_slf dv {i} {w}"],
        rt_common.std_configs(rng, rep.tier, families=True),
        dfs=("bad_loss", "false"),
        search="c03_search", search_what="two clients call every messaging method once with position-tagged arguments, fair schedule (Runtime/Explore.v mixed); anomalies (kind, client, seq): 1 other method/arguments, 3 never executed, 4 executed twice, 5/6 foreign or fabricated reply, 7 caller panicked while actor alive")
    rt_common.interact_exec_part(rep, PID, random.Random(rep.seed + 11))
    runs = []
    for lib in gen_impl.LIBS:
        for ch in ((0, 1) if rep.tier == "quick" else (0, 1, 2, 3)):
            runs.append(["mixed", lib, ch, "clients=%d" % (4 if rep.tier == "quick" else 8), "calls=%d" % (60 if rep.tier == "quick" else 300), "seed=%d" % (rep.seed % 100000)])
            if PID in ("C02", "C03"):
                runs.append(["burst", lib, ch, "k=%d" % (ch + 3 if ch else 6)])
    # a reply that takes long (the actor is busy with an earlier call): the caller waits, whatever the runtime and channel kind
    runs += [["slowreply", lib, ch, "ms=400", "kind=unit"] for lib in gen_impl.LIBS for ch in (0, 2)]
    runs += [["slowreply", lib, ch, "ms=%d" % (5600 if rep.tier == "quick" else 12000)]
             for lib in (("std",) if rep.tier == "quick" else gen_impl.LIBS) for ch in ((0, 1) if rep.tier == "quick" else (0, 1, 2))]
    # accepted calls still queued when a self-consuming call arrives (queue filled to its capacity): each of them runs, once, before the hand-over
    runs += [["consume", lib, ch, "handles=1", "pending=%d" % (ch or 3)] for lib in gen_impl.LIBS for ch in ((0, 2) if rep.tier == "quick" else (0, 1, 2, 3))]
    rt_common.impl_side(rep, PID, runs, lambda a, d: probe.oracle_mixed(d) if a[0] == "mixed" else probe.oracle_consume(d) if a[0] == "consume" else
                        probe.oracle_slowreply(d) if a[0] == "slowreply" else probe.oracle_burst(d, None if a[2] == 0 else a[2]))


def replay(rep, path):
    return rt_common.replay_generic(rep, path)
