"""C11 translator: the handle (`Live`) struct of a recognised real expansion -> Coq term of IT.Gen.Generics.live_desc, and the
async methods of the handle -> fut_desc terms.  Purely syntactic; the table that gives the field types a meaning is in Coq
(Gen/Generics.v `classify`), so a field type this code cannot parse as `path<args>` becomes `ROther` and is rejected there."""
import re
from coqgen import s as cs

TRAITS = {"Send": "Send", "Sync": "Sync", "'static": "Static", "Clone": "Clone"}
TRAIT_PATHS = {"std::marker::Send": "Send", "core::marker::Send": "Send", "std::marker::Sync": "Sync", "core::marker::Sync": "Sync",
               "std::clone::Clone": "Clone", "core::clone::Clone": "Clone"}


def toks(text):
    return text.split()


def split_top(ts, sep=","):
    out, cur, depth = [], [], 0
    for t in ts:
        if t in ("<", "(", "[", "{"):
            depth += 1
        elif t in (">", ")", "]", "}"):
            depth -= 1
        if t == sep and depth == 0:
            out.append(cur)
            cur = []
        else:
            cur.append(t)
    if cur:
        out.append(cur)
    return out


IDENT = re.compile(r"^[A-Za-z_][A-Za-z0-9_]*$")


def parse_type(ts):
    """tokens -> ('app', path, [args]) | ('other', text)"""
    if not ts:
        return ("other", "")
    if len(ts) == 1 and ts[0].startswith("'"):
        return ("app", ts[0], [])
    i = 0
    segs = []
    lead = ""
    if ts[0] == "::":
        lead = "::"
        i = 1
    while i < len(ts) and IDENT.match(ts[i]):
        segs.append(ts[i])
        i += 1
        if i < len(ts) and ts[i] == "::" and i + 1 < len(ts) and IDENT.match(ts[i + 1]):
            i += 1
            continue
        break
    if not segs:
        return ("other", " ".join(ts))
    path = lead + "::".join(segs)
    if i == len(ts):
        return ("app", path, [])
    if ts[i] == "<" and ts[-1] == ">":
        args = [parse_type(a) for a in split_top(ts[i + 1:-1])]
        return ("app", path, args)
    return ("other", " ".join(ts))


def rty(t):
    if t[0] == "other":
        return "(ROther %s)" % cs(t[1])
    return "(RApp %s [%s])" % (cs(t[1]), "; ".join(rty(a) for a in t[2]))


def trait_of(bound_toks):
    txt = "".join(bound_toks)
    if txt in TRAITS:
        return TRAITS[txt]
    return TRAIT_PATHS.get(txt.lstrip(":"))


def parse_generics(gen_text, where_text):
    """-> (tparams, lparams, cparams, bounds[(param, trait)], other_bounds_count)"""
    tps, lps, cps, bounds = [], [], [], []
    g = toks(gen_text)
    if g and g[0] == "<":
        g = g[1:-1]
    for p in split_top(g):
        if not p:
            continue
        if p[0] == "const":
            cps.append(p[1])
            continue
        name = p[0]
        (lps if name.startswith("'") else tps).append(name)
        if len(p) > 2 and p[1] == ":":
            rest = p[2:]
            # a default `= X` ends the bounds
            if "=" in rest:
                rest = rest[:rest.index("=")]
            for b in split_top(rest, "+"):
                tr = trait_of(b)
                if tr:
                    bounds.append((name, tr))
    for pred in split_top(toks(where_text)):
        if ":" not in pred:
            continue
        k = pred.index(":")
        lhs, rhs = pred[:k], pred[k + 1:]
        if len(lhs) != 1:
            continue
        for b in split_top(rhs, "+"):
            tr = trait_of(b)
            if tr:
                bounds.append((lhs[0], tr))
    return tps, lps, cps, bounds


def live_desc(mdl):
    """mdl: one model of ir.parse_expansion. Returns (coq term, python dict) or raises ValueError when there is no handle struct"""
    live = mdl.get("live")
    if live is None:
        raise ValueError("no handle struct in the expansion")
    tps, lps, cps, bounds = parse_generics(live["generics"], live["where"])
    fields = [(f[0], parse_type(toks(f[1]))) for f in live["fields"]]
    clone_impls = []
    for t in mdl.get("traits", []):
        tn = "".join(toks(t["trait"] or "")).lstrip(":")
        if tn in ("Clone", "std::clone::Clone", "core::clone::Clone"):
            _, _, _, b = parse_generics(t["generics"], t["where"])
            clone_impls.append(sorted(set(p for p, tr in b if tr == "Clone")))
    d = {"name": live["name"], "script": mdl["script"]["name"], "attrs": list(live["attrs"]), "tparams": tps, "lparams": lps, "cparams": cps,
         "bounds": bounds, "fields": fields, "clone_impls": clone_impls}
    term = ("{| ld_name := %s; ld_script := %s; ld_attrs := [%s]; ld_tparams := [%s]; ld_lparams := [%s]; ld_cparams := [%s]; "
            "ld_bounds := [%s]; ld_fields := [%s]; ld_clone_impls := [%s] |}") % (
        cs(d["name"]), cs(d["script"]), "; ".join(cs(a) for a in d["attrs"]), "; ".join(cs(x) for x in tps), "; ".join(cs(x) for x in lps),
        "; ".join(cs(x) for x in cps), "; ".join("(%s, %s)" % (cs(p), tr) for p, tr in bounds),
        "; ".join("(%s, %s)" % (cs(n), rty(t)) for n, t in fields), "; ".join("[%s]" % "; ".join(cs(p) for p in ps) for ps in clone_impls))
    return term, d


SELFK = {"& self": "ByRef", "& mut self": "ByMut", "self": "ByVal", "mut self": "ByVal", "": "NoSelf"}


def fut_descs(mdl):
    """async methods of the handle -> list of (name, coq term, dict)"""
    out = []
    for m in mdl.get("methods", []):
        if not m.get("async"):
            continue
        b = m["body_ir"]
        kind = b[0]
        selfk = SELFK.get(m.get("self", ""), None)
        params = [p[1] for p in m.get("params", [])]
        reply, send_await, rec = None, False, True
        if kind in ("BRef", "BStop"):
            rb = b[1]
            if any(p[0] == "POneshot" for p in rb["pre"]):
                reply = m.get("ret") or "()"
            send_await = bool(rb["send"]["await"])
            tail = rb.get("tail", ("TNone",))
            if tail[0] not in ("TWait", "TNone", "TRet"):
                rec = False
            if rb["msg"][0] == "Unknown":
                rec = False
        elif kind == "BSlf":
            # `let (actor, ..) = self.inter_play_stop().await; return actor.m(args)[.await]`: the nested future is the BStop one
            reply, send_await = "(actor, receiver)", True
        elif kind in ("BStat", "BInter", "BCtor"):
            pass
        else:
            rec = False
        if selfk is None:
            rec = False
            selfk = "NoSelf"
        d = {"name": m["name"], "self": selfk, "params": params, "reply": reply, "send_await": send_await, "recognised": rec, "kind": kind}
        term = "{| fd_name := %s; fd_self := %s; fd_params := [%s]; fd_reply := %s; fd_send_await := %s; fd_recognised := %s |}" % (
            cs(m["name"]), selfk, "; ".join(cs(p) for p in params), "None" if reply is None else "(Some %s)" % cs(reply),
            "true" if send_await else "false", "true" if rec else "false")
        out.append((m["name"], term, d))
    return out
