(* Gen/AttrSpec.v -- the reference validator of C19, written from the DOCUMENTED option tables
   (src/lib.rs: "Configuration Options" of actor / family / example and the sections channel, lib, edit, file, name, show,
   include-exclude, debut, interact; src/error.rs: AVAIL_ACTOR, AVAIL_FAMILY, AVAIL_EXAMPLE, AVAIL_EXPAND, AVAIL_LIB,
   FILTER_OPTION_USE_HELP, REQ_FILE, NOT_ALLOW_FAMILY_IN_SMOL), independently of the parser's control flow:
   a list of options is valid when
     (1) no option is given twice (a family may repeat `actor(..)`),
     (2) every option is a documented one for its position and has the documented value kind,
     (3) at most one of include / exclude is present,
     (4) file markers inside `edit` require `file = "path"` naming a file in which exactly one macro carries markers,
     (5) a family has at least one member, every member has a `first_name`, and the runtime is not smol,
     (6) example: `path` is mandatory.
   and `apply_item` / `denote_*` give each accepted option its documented meaning (one field each, nothing else touched).

   Where the documentation is silent the validator follows the implementation (so the equivalence theorem is total) and
   `doc_silent_*` marks those inputs for the check script, which never counts them as failing inputs:
     `Debug` (undocumented option), lib / name / debut / file inside a member `actor(..)`,
     a family-level `edit` mentioning script / live (lib.rs and the help text AVAIL_FAMILY disagree).
   The inner grammar of `edit(..)` is delegated to the model's edit parser (v_edit); its documented rules are separate lemmas. *)
From Coq Require Import List String Ascii NArith ZArith Bool.
Import ListNotations.
From IT Require Import Gen.Attr.
Open Scope string_scope.

Scheme Equality for okey.

Definition mkey (m : meta) : okey := match mpath m with [x] => classify x | _ => KOther end.
Definition is_key (k : okey) (m : meta) : bool := okey_beq (mkey m) k.
Definition has_key (k : okey) (l : list meta) : bool := existsb (is_key k) l.
Definition find_key (k : okey) (l : list meta) : option meta := find (is_key k) l.

Fixpoint nodupb (l : list path) : bool := match l with [] => true | p :: r => negb (path_mem p r) && nodupb r end.

Definition is_filter_key (m : meta) : bool := is_key KInclude m || is_key KExclude m.
Definition nf (l : list meta) : nat := List.length (filter is_filter_key l).

(* ---- value kinds (documented tables) ---- *)
Definition v_str (m : meta) : option string := match m with MNV _ (VStr s) => Some s | _ => None end.
Definition v_name (m : meta) : bool := match v_str m with Some s => is_ident_str s | None => false end.          (* a non-empty identifier *)
Definition is_lib_name (s : string) : bool := existsb (String.eqb s) ["std"; "smol"; "tokio"; "async_std"].
Definition v_lib (m : meta) : bool := match v_str m with Some s => is_lib_name s | None => false end.
Definition v_flag (m : meta) : bool := match m with MPath _ => true | _ => false end.                             (* a bare word *)
Definition v_chan (m : meta) : bool := match m with MNV _ (VInt z) => ((0 <=? z) && (z <=? usize_max))%Z | _ => false end.   (* usize *)
Definition bare (m : meta) : bool := match m with MPath [_] => true | _ => false end.
Definition names_ctor (m : meta) : bool := is_ident (mpath m) "new" || is_ident (mpath m) "try_new".
Definition v_filter (m : meta) : bool :=
  match m with MList _ l => forallb bare l && nodupb (map mpath l) && negb (existsb names_ctor l) | _ => false end.
(* inner grammar of edit: `actor` and family members use the actor grammar (script / live parts), the family itself def / imp / trt *)
Definition v_edit (m : meta) : bool := is_ok (edit_parse edit0 m).
Definition v_edit_family (m : meta) : bool := is_ok (edit_parse_family edit0 m).

Section Spec.
Variable fexists : string -> bool.
Variable fcount : string -> fcnt.

Definition v_file (m : meta) : bool := match v_str m with Some s => negb (String.eqb s "") && fexists s | None => false end.

(* options of `actor` (mc = Actor) and of a family member `actor(..)` (mc = Family) *)
Definition item_valid (mc : mac) (m : meta) : bool :=
  match mkey m with
  | KName => v_name m | KLib => v_lib m | KShow => v_flag m | KChannel => v_chan m | KEdit => v_edit m
  | KDebut => v_flag m | KFile => v_file m
  | KFirstName => match mc with Family => v_name m | Actor => false end
  | KInteract => v_flag m
  | KInclude | KExclude => v_filter m
  | KDebug => v_flag m
  | _ => false
  end.

(* the meaning of one (valid) option: exactly one field changes *)
Definition lib_den (m : meta) : lib :=
  match v_str m with
  | Some s => if String.eqb s "smol" then Smol else if String.eqb s "tokio" then Tokio else if String.eqb s "async_std" then AsyncStd else Std
  | None => Std end.
Definition chan_den (m : meta) : chan :=
  match m with MNV _ (VInt z) => if (0 <? z)%Z then Buffer (Z.to_N z) else Unbounded | _ => Unbounded end.
Definition leaf_name (m : meta) : string := match mpath m with [x] => x | _ => "" end.
Definition edit_den (e : edit) (m : meta) : edit := match edit_parse e m with Ok e' => e' | _ => e end.
Definition edit_den_family (e : edit) (m : meta) : edit := match edit_parse_family e m with Ok e' => e' | _ => e end.
Definition filter_den (incl : bool) (m : meta) : fset :=
  match m with MList _ l => (if incl then FInclude else FExclude) (map leaf_name l) | _ => (if incl then FInclude else FExclude) [] end.

Definition apply_item (c : acfg) (m : meta) : acfg :=
  match mkey m with
  | KName => set_name (v_str m) c
  | KLib => set_lib (lib_den m) c
  | KShow => set_show true c
  | KChannel => set_chan (chan_den m) c
  | KEdit => set_edit (edit_den (a_edit c) m) c
  | KDebut => set_debut true c
  | KFile => set_file (v_str m) c
  | KFirstName => set_first (v_str m) c
  | KInteract => set_interact true c
  | KInclude => set_filter (Some (filter_den true m)) c
  | KExclude => set_filter (Some (filter_den false m)) c
  | KDebug => set_debug true c
  | _ => c
  end.

Definition denote_actor_from (c : acfg) (l : list meta) : acfg := fold_left apply_item l c.

(* file markers: does the (unique) edit option of the list carry a `file` marker that is in force? *)
Definition markers (l : list meta) : bool :=
  match find_key KEdit l with Some m => edit_active (edit_den edit0 m) | None => false end.
Definition markers_family (l : list meta) : bool :=
  match find_key KEdit l with Some m => edit_active (edit_den_family edit0 m) | None => false end.
Definition file_one (l : list meta) : bool :=
  match find_key KFile l with
  | Some m => match v_str m with Some f => match fcount f with FOne => true | _ => false end | None => false end
  | None => false end.

(* ---------- actor ---------- *)
Definition valid_actor (l : list meta) : bool :=
  nodupb (map mpath l) && forallb (item_valid Actor) l && Nat.leb (nf l) 1 && (if markers l then file_one l else true).

Definition denote_actor (l : list meta) : cfg :=
  let a := denote_actor_from (set_mac Actor acfg0) l in
  {| c_top := if markers l then set_attr true a else a; c_members := [] |}.

(* ---------- family ---------- *)
Definition fam_item_valid (m : meta) : bool :=
  match mkey m with
  | KName => v_name m | KLib => v_lib m | KShow => v_flag m | KChannel => v_chan m | KEdit => v_edit_family m
  | KDebut => v_flag m | KFile => v_file m
  | KActor => true                     (* validated as a member below *)
  | KRwLock | KMutex => v_flag m
  | _ => false
  end.
Definition member_valid (m : meta) : bool :=
  match m with
  | MList _ ml => nodupb (map mpath ml) && forallb (item_valid Family) ml && Nat.leb (nf ml) 1 && has_key KFirstName ml
  | _ => false
  end.
Definition members_of (l : list meta) : list meta := filter (is_key KActor) l.
Definition member_list (m : meta) : list meta := match m with MList _ ml => ml | _ => [] end.
Definition not_actor_path (p : path) : bool := negb (path_mem p [["actor"]]).

Definition fam_lib (l : list meta) : lib := match find_key KLib l with Some m => lib_den m | None => Std end.
Definition fam_markers (l : list meta) : bool :=
  markers_family l || existsb (fun m => markers (member_list m)) (members_of l).

Definition valid_family (l : list meta) : bool :=
  nodupb (filter not_actor_path (map mpath l)) && forallb fam_item_valid l
  && negb (match members_of l with [] => true | _ => false end) && forallb member_valid (members_of l)
  && (if fam_markers l then file_one l else true)
  && negb (match fam_lib l with Smol => true | _ => false end).

(* meaning: family-level options set the family's fields; RwLock is the default lock; each member starts from the family's
   fields (show and edit are not inherited), then its own options apply; its macro kind is `actor` *)
Definition apply_fam_item (c : acfg) (m : meta) : acfg :=
  match mkey m with
  | KRwLock => set_rcv RRwLock c
  | KMutex => set_rcv RMutex c
  | KEdit => set_edit (edit_den_family (a_edit c) m) c
  | KName | KLib | KShow | KChannel | KDebut | KFile => apply_item c m
  | _ => c
  end.
Definition denote_family_top (l : list meta) : acfg :=
  let c := fold_left apply_fam_item l (set_mac Family acfg0) in
  match a_rcv c with RSlf => set_rcv RRwLock c | _ => c end.
Definition denote_member (top : acfg) (m : meta) : string * acfg :=
  let a := denote_actor_from (proto_of top) (member_list m) in
  (match a_first a with Some f => f | None => "" end, set_mac Actor a).
Definition denote_family (l : list meta) : cfg :=
  let top := denote_family_top l in
  {| c_top := if fam_markers l then set_attr true top else top; c_members := map (denote_member top) (members_of l) |}.

(* ---------- example ---------- *)
Inductive xkey := XMain | XPath | XExpand | XOther.
Definition xclassify (m : meta) : xkey :=
  if is_ident (mpath m) "main" then XMain else if is_ident (mpath m) "path" then XPath else if is_ident (mpath m) "expand" then XExpand else XOther.
Definition v_expand (m : meta) : bool :=
  match m with MList _ l => forallb (fun x => bare x && (is_ident (mpath x) "actor" || is_ident (mpath x) "family")) l | _ => false end.
Definition ex_item_valid (m : meta) : bool :=
  match xclassify m with XMain => v_flag m | XPath => v_file m | XExpand => v_expand m | XOther => false end.
Definition has_xkey (k : xkey) (l : list meta) : bool :=
  existsb (fun m => match xclassify m, k with XMain, XMain | XPath, XPath | XExpand, XExpand | XOther, XOther => true | _, _ => false end) l.
Definition valid_example (l : list meta) : bool :=
  nodupb (map mpath l) && forallb ex_item_valid l && has_xkey XPath l.

End Spec.

(* ---------- documentation-silent zones (the check script never reports an input of these zones as a failing input) ---------- *)
(* `Debug` is not documented at all; inside a member `actor(..)` the tables list first_name, edit, include|exclude, show, interact, channel:
   lib / name / debut / file there are silent.  At family level lib.rs documents edit(def, imp(..), trt(..)) while the help text
   AVAIL_FAMILY shows edit(live(..)): a family-level edit that mentions script / live is a documentation conflict. *)
Definition doc_silent_member_item (m : meta) : bool :=
  match mkey m with KLib | KName | KDebut | KFile | KDebug => true | _ => false end.
Definition doc_silent_item (m : meta) : bool := match mkey m with KDebug => true | _ => false end.
Definition names_sol (m : meta) : bool := is_ident (mpath m) "script" || is_ident (mpath m) "live".
Definition fam_edit_conflict (m : meta) : bool :=
  is_key KEdit m &&
  match m with
  | MList _ kids => existsb (fun x => names_sol x || match x with MList _ ks => is_ident (mpath x) "file" && existsb names_sol ks | _ => false end) kids
  | _ => false end.
Definition doc_silent_family (l : list meta) : bool :=
  existsb fam_edit_conflict l || existsb (fun m => is_key KActor m && existsb doc_silent_member_item (member_list m)) l.
