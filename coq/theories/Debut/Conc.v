(* Concurrent constructor calls: every thread runs the debut() body small-step (Debut.step1); LAST, the clock position and the
   mutex are shared.  A schedule is ANY list of thread ids (a blocked or finished thread's turn is a no-op), the number of
   threads is unbounded.  For a well-formed body: whatever the interleaving, stamps come out strictly increasing in the order
   in which the calls leave the critical section, so any two calls get different stamps. *)
From Coq Require Import List NArith Bool Arith Lia Sorted.
From IT Require Import Debut.Debut Debut.DebutThm.
Import ListNotations.
Open Scope N_scope.

Inductive tstate := TIdle | TIn (k : list stmt) (next : N) | TDone (t : N).

Record gst := { g_last : N; g_pos : nat; g_owner : option nat; g_thr : nat -> tstate; g_log : list (nat * N) (* newest first *) }.

Definition upd (f : nat -> tstate) (i : nat) (x : tstate) : nat -> tstate := fun j => if Nat.eqb j i then x else f j.

Section Conc.
Variable ir : debut_ir.
Variable clock : nat -> N.

Definition gstep (g : gst) (i : nat) : gst :=
  match g_thr g i with
  | TIdle =>
      if d_locked ir then
        match g_owner g with
        | None => {| g_last := g_last g; g_pos := g_pos g; g_owner := Some i; g_thr := upd (g_thr g) i (TIn (d_body ir) 0); g_log := g_log g |}
        | Some _ => g   (* blocked on LAST.lock() *)
        end
      else {| g_last := g_last g; g_pos := g_pos g; g_owner := g_owner g; g_thr := upd (g_thr g) i (TIn (d_body ir) 0); g_log := g_log g |}
  | TIn k x =>
      match step1 clock k {| s_last := g_last g; s_next := x; s_pos := g_pos g |} with
      | Next k' s' => {| g_last := s_last s'; g_pos := s_pos s'; g_owner := g_owner g; g_thr := upd (g_thr g) i (TIn k' (s_next s')); g_log := g_log g |}
      | Done s' => {| g_last := g_last g; g_pos := g_pos g; g_owner := if d_locked ir then None else g_owner g;
                      g_thr := upd (g_thr g) i (TDone (val (d_ret ir) s')); g_log := (i, val (d_ret ir) s') :: g_log g |}
      | Stuck => g
      end
  | TDone _ => g
  end.

Definition g0 (last : N) (pos : nat) : gst := {| g_last := last; g_pos := pos; g_owner := None; g_thr := fun _ => TIdle; g_log := [] |}.
Definition grun (g : gst) (sched : list nat) : gst := fold_left gstep sched g.
End Conc.

Definition desc : list N -> Prop := StronglySorted (fun a b : N => b < a).

Lemma desc_cons : forall t h r, desc (h :: r) -> h < t -> desc (t :: h :: r).
Proof.
  intros t h r D L. constructor; [exact D|]. constructor; [exact L|].
  apply StronglySorted_inv in D. destruct D as [_ F]. rewrite Forall_forall in *. intros x Hx. specialize (F x Hx). simpl in F. lia.
Qed.

Lemma desc_nodup : forall l, desc l -> NoDup l.
Proof.
  induction l as [|a l IH]; intros S; constructor.
  - apply StronglySorted_inv in S. destruct S as [_ F]. rewrite Forall_forall in F. intros I. specialize (F a I). simpl in F. lia.
  - apply IH. apply StronglySorted_inv in S. tauto.
Qed.

Lemma nodup_snd_inj : forall (l : list (nat * N)) i j t, NoDup (map snd l) -> In (i, t) l -> In (j, t) l -> i = j.
Proof.
  induction l as [|[a b] l IH]; intros i j t D I J; [contradiction|].
  simpl in D. inversion D as [|x y NI D']; subst. simpl in I, J.
  destruct I as [I|I], J as [J|J].
  - congruence.
  - inversion I; subst. exfalso. apply NI. change t with (snd (j, t)). apply in_map. exact J.
  - inversion J; subst. exfalso. apply NI. change t with (snd (i, t)). apply in_map. exact I.
  - eapply IH; eauto.
Qed.

Lemma desc_app_last : forall (l : list (nat * N)) last k t, desc (map snd l ++ [last]) -> In (k, t) l -> last < t.
Proof.
  induction l as [|[a b] l IH]; intros last k t D I; [contradiction|].
  simpl in D. apply StronglySorted_inv in D. destruct D as [D1 F]. destruct I as [I|I].
  - inversion I; subst. rewrite Forall_forall in F. apply (F last). apply in_or_app. right. left. reflexivity.
  - eapply IH; eauto.
Qed.

Lemma step1_done : forall clock k s s', step1 clock k s = Done s' -> k = [] /\ s' = s.
Proof.
  intros clock k s s' H. destruct k as [|[v ex|cc a b|cc body|] r]; simpl in H.
  - inversion H; auto.
  - destruct (eeval clock ex s); discriminate H.
  - discriminate H.
  - destruct (beval cc s); discriminate H.
  - discriminate H.
Qed.

Section Inv.
Variables (ir : debut_ir) (clock : nat -> N) (c e : bexp) (n : N) (last0 : N).
Hypothesis Hc : wf_cond c = true.
Hypothesis He : wf_eq e = true.
Hypothesis Hn : 1 <= n.
Hypothesis Hbody : d_body ir = canon c e n.
Hypothesis Hlock : d_locked ir = true.
Hypothesis Hret : d_ret ir = VNext.

Definition stamps (g : gst) : list N := map snd (g_log g) ++ [last0].
Definition top (g : gst) : N := hd 0 (stamps g).

Definition GI (g : gst) : Prop :=
  desc (stamps g) /\ NoDup (map fst (g_log g)) /\ (forall j t, g_thr g j = TDone t <-> In (j, t) (g_log g)) /\
  match g_owner g with
  | None => g_last g = top g /\ (forall j k x, g_thr g j <> TIn k x)
  | Some i => (exists k x p0, g_thr g i = TIn k x /\ R clock c e n p0 (top g) k (mk (g_last g) x (g_pos g)))
              /\ (forall j k x, j <> i -> g_thr g j <> TIn k x)
  end.

Lemma upd_same : forall f i x, upd f i x i = x.
Proof. intros. unfold upd. rewrite Nat.eqb_refl. reflexivity. Qed.
Lemma upd_other : forall f i x j, j <> i -> upd f i x j = f j.
Proof. intros. unfold upd. destruct (Nat.eqb_spec j i); [contradiction|reflexivity]. Qed.

Lemma stamps_nonempty : forall g, exists h r, stamps g = h :: r.
Proof. intros g. unfold stamps. destruct (map snd (g_log g)); simpl; eauto. Qed.

Lemma GI_step : forall g i, GI g -> GI (gstep ir clock g i).
Proof.
  intros g i (D & ND & LG & OW). unfold gstep.
  destruct (g_thr g i) as [|k x|t] eqn:Ti.
  - (* idle: tries to lock *)
    rewrite Hlock. destruct (g_owner g) as [o|] eqn:Ow; [cbn iota; unfold GI; rewrite Ow; auto|].
    destruct OW as [La NoIn].
    unfold GI; simpl. unfold stamps, top, stamps; simpl. repeat split; auto.
    + intros E. destruct (Nat.eq_dec j i) as [->|Ne]; [rewrite upd_same in E; discriminate E|rewrite upd_other in E by exact Ne; apply LG; exact E].
    + intros I. destruct (Nat.eq_dec j i) as [->|Ne]; [apply LG in I; congruence|rewrite upd_other by exact Ne; apply LG; exact I].
    + exists (d_body ir), 0, (g_pos g). rewrite upd_same. split; [reflexivity|]. rewrite Hbody. rewrite La. apply R_init.
    + intros j k x Ne. rewrite upd_other by exact Ne. apply NoIn.
  - (* inside the critical section *)
    destruct (g_owner g) as [o|] eqn:Ow; [|destruct OW as [_ NoIn]; exfalso; exact (NoIn i k x Ti)].
    destruct OW as [(k0 & x0 & p0 & To & HR) Others].
    destruct (Nat.eq_dec i o) as [->|Ne]; [|exfalso; exact (Others i k x Ne Ti)].
    rewrite To in Ti. inversion Ti; subst k0 x0. clear Ti.
    pose proof (R_step clock c e n p0 (top g) Hc He Hn k _ HR) as P. unfold mk in P.
    destruct (step1 clock k {| s_last := g_last g; s_next := x; s_pos := g_pos g |}) as [k' s'|s'|] eqn:St.
    + (* one more statement *)
      unfold GI; simpl. unfold top, stamps in *; simpl. repeat split; auto.
      * intros E. destruct (Nat.eq_dec j o) as [->|Ne]; [rewrite upd_same in E; discriminate E|rewrite upd_other in E by exact Ne; apply LG; exact E].
      * intros I. destruct (Nat.eq_dec j o) as [->|Ne]; [apply LG in I; congruence|rewrite upd_other by exact Ne; apply LG; exact I].
      * exists k', (s_next s'), p0. rewrite upd_same. split; [reflexivity|]. destruct s'; exact P.
      * intros j k1 x1 Ne. rewrite upd_other by exact Ne. apply Others. exact Ne.
    + (* leaves: releases the lock, stamp logged *)
      destruct P as (j & Bh & Le & Es). rewrite Hlock, Hret.
      apply step1_done in St. destruct St as [_ Ss].
      assert (Ev : val VNext s' = value clock n p0 (top g) j) by (rewrite Es; reflexivity).
      assert (El : g_last g = value clock n p0 (top g) j).
      { rewrite Es in Ss. unfold mk in Ss. inversion Ss. reflexivity. }
      assert (Gt : top g < value clock n p0 (top g) j).
      { unfold value. destruct (N.eqb_spec (clock (p0 + j)%nat) (top g)); lia. }
      rewrite Ev.
      unfold GI; simpl. unfold top at 3. unfold stamps; simpl. repeat split; auto.
      * destruct (stamps_nonempty g) as (h & r & Sh). unfold stamps in Sh. rewrite Sh. apply desc_cons.
        -- rewrite <- Sh. exact D.
        -- unfold top, stamps in Gt |- *. rewrite Sh in Gt |- *. simpl in Gt |- *. exact Gt.
      * constructor; [|exact ND]. intros I. apply in_map_iff in I. destruct I as ([a b] & Ea & I). simpl in Ea. subst a.
        apply LG in I. congruence.
      * intros E. destruct (Nat.eq_dec j0 o) as [->|Ne].
        -- rewrite upd_same in E. inversion E; subst. left; reflexivity.
        -- rewrite upd_other in E by exact Ne. right. apply LG. exact E.
      * intros [I|I].
        -- inversion I; subst. rewrite upd_same. reflexivity.
        -- destruct (Nat.eq_dec j0 o) as [->|Ne]; [apply LG in I; congruence|rewrite upd_other by exact Ne; apply LG; exact I].
      * intros j0 k1 x1. destruct (Nat.eq_dec j0 o) as [->|Ne]; [rewrite upd_same; discriminate|rewrite upd_other by exact Ne; apply Others; exact Ne].
    + contradiction.
  - unfold GI. auto.
Qed.

Lemma GI_init : forall pos, GI (g0 last0 pos).
Proof.
  intros pos. unfold GI, g0, stamps, top, stamps; simpl. repeat split; auto; try (intros; discriminate); try (intros; contradiction).
  - constructor; constructor.
  - constructor.
Qed.

Lemma GI_run : forall sched g, GI g -> GI (grun ir clock g sched).
Proof. induction sched as [|i sched IH]; intros g H; [exact H|]. simpl. apply IH. apply GI_step. exact H. Qed.
End Inv.

(* ------------------------------------------------------------------------------------------------ *)
Theorem conc_invariant : forall ir, wf_debut ir = true -> forall clock last pos sched,
  let g := grun ir clock (g0 last pos) sched in
  desc (map snd (g_log g) ++ [last]) /\ NoDup (map fst (g_log g)) /\ (forall j t, g_thr g j = TDone t <-> In (j, t) (g_log g)).
Proof.
  intros ir H clock last pos sched g.
  destruct (wf_debut_inv ir H) as (_ & Lk & Rt & c & e & n & B & Hc & He & Hn & _).
  assert (G : GI clock c e n last g) by (apply GI_run; auto; apply GI_init).
  destruct G as (D & ND & LG & _).
  repeat split; auto; apply LG.
Qed.

(* any two constructor calls that have returned, under any interleaving, hold different stamps, both later than the
   stamp LAST held before *)
Theorem conc_distinct : forall ir, wf_debut ir = true -> forall clock last pos sched i j ti tj,
  let g := grun ir clock (g0 last pos) sched in
  g_thr g i = TDone ti -> g_thr g j = TDone tj -> i <> j -> ti <> tj /\ last < ti /\ last < tj.
Proof.
  intros ir H clock last pos sched i j ti tj g Di Dj Ne.
  destruct (conc_invariant ir H clock last pos sched) as (D & ND & LG). fold g in D, ND, LG.
  apply LG in Di. apply LG in Dj.
  pose proof (desc_nodup _ D) as N1.
  assert (N2 : NoDup (map snd (g_log g))) by (rewrite <- (app_nil_r (map snd (g_log g))); apply NoDup_remove_1 with (a := last); exact N1).
  assert (Lt : forall k t, In (k, t) (g_log g) -> last < t) by (intros k t I; eapply desc_app_last; eauto).
  repeat split; eauto.
  intros E. subst tj. apply Ne. eapply nodup_snd_inj; eauto.
Qed.

(* the order of stamps is the order in which the calls held the mutex *)
Theorem conc_lock_order : forall ir, wf_debut ir = true -> forall clock last pos sched,
  desc (map snd (g_log (grun ir clock (g0 last pos) sched)) ++ [last]).
Proof. intros ir H clock last pos sched. exact (proj1 (conc_invariant ir H clock last pos sched)). Qed.

(* three threads, interleaved schedule, clock repeating and stepping back: the hypotheses are satisfiable and the stamps differ *)
Example ex_conc : g_log (grun debut_ir_canonical (clock_of [100; 100; 101; 102] 200) (g0 100 0)
   (flat_map (fun _ => [2;0;1]) (seq 0 14) ++ flat_map (fun _ => [1;0]) (seq 0 14) ++ repeat 1 14)%nat) = [(1%nat, 103); (0%nat, 102); (2%nat, 101)].
Proof. vm_compute. reflexivity. Qed.
