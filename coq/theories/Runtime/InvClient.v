(* Clients are sequential programs: a client starts its next call only after the previous one returned.
   Consequence (with the real-time order): the calls of one client are executed in program order. *)
From Coq Require Import List Arith Bool Lia.
Import ListNotations.
From IT Require Import Runtime.Actor Runtime.Lists Runtime.ActorInv Runtime.InvDefs Runtime.InvOrder Runtime.Combined.

Section Inv.
Context {A V : Type}.
Variable sem : nat -> A -> list V -> option (A * V).
Variable sem_slf : nat -> A -> list V -> V.
Variable dv : V.
Notation st := (@st A V).
Notation step := (step sem sem_slf dv).
Notation step' := (step' sem sem_slf dv).
Notation run_from := (run_from sem sem_slf dv).
Notation run := (run sem sem_slf dv).

(* case analysis of one step: one goal per transition *)
Ltac step_cases H :=
  unfold Actor.step, step_client, step_actor in H;
  repeat match type of H with
  | context [match ?x with _ => _ end] => destruct x eqn:?; try discriminate H
  end;
  try (injection H as <-).

Definition client_seq_ok (s : st) :=
  forall t k1 k2 h1 h2, k1 < k2 -> hist s = h1 ++ EInv (t, k2) :: h2 -> In (EInv (t, k1)) (hist s) -> In (ERet (t, k1)) h1.

(* the inductive invariant *)
Definition cseq_inv (s : st) :=
  client_seq_ok s /\
  (* freshness: started calls are below the client's counter *)
  (forall t k, In (EInv (t, k)) (hist s) -> exists cl, nth_error (clients s) t = Some cl /\ k < c_seq cl) /\
  (* every started call of a client has returned, except the one it is inside *)
  (forall t cl k, nth_error (clients s) t = Some cl -> In (EInv (t, k)) (hist s) ->
     In (ERet (t, k)) (hist s) \/ In (t, k) (pc_cids (c_pc cl))) /\
  (* the call a client is inside was started *)
  (forall t cl c, nth_error (clients s) t = Some cl -> In c (pc_cids (c_pc cl)) -> In (EInv c) (hist s)) /\
  (* every accepted call was started *)
  (forall c, In c (enq s) -> In (EInv c) (hist s)).

Lemma cseq_ext (s s' : st) :
  clients s' = clients s -> hist s' = hist s -> enq s' = enq s -> cseq_inv s -> cseq_inv s'.
Proof. unfold cseq_inv, client_seq_ok. intros -> -> -> H. exact H. Qed.

(* ---- one client step, described abstractly ---- *)
Section ClientStep.
Variables (s s' : st) (t : nat) (c c' : @client V).
Hypothesis I : cseq_inv s.
Hypothesis Hc : nth_error (clients s) t = Some c.
Hypothesis E : clients s' = upd (clients s) t c'.
Hypothesis L : c_seq c <= c_seq c'.
Hypothesis Hh :
  (hist s' = hist s /\ pc_cids (c_pc c') = pc_cids (c_pc c))
  \/ (exists x, hist s' = hist s ++ [ERet x] /\ pc_cids (c_pc c) = [x] /\ pc_cids (c_pc c') = [])
  \/ (hist s' = hist s ++ [EInv (t, c_seq c)] /\ pc_cids (c_pc c) = [] /\ pc_cids (c_pc c') = [(t, c_seq c)]
      /\ c_seq c < c_seq c').
Hypothesis Hq : enq s' = enq s \/ exists x, pc_cids (c_pc c) = [x] /\ enq s' = enq s ++ [x].

Let hist_mono e : In e (hist s) -> In e (hist s').
Proof.
  intros He. destruct Hh as [(-> & _)|[(x & -> & _)|(-> & _)]]; auto; apply in_or_app; auto.
Qed.

Lemma cl_seq : client_seq_ok s'.
Proof.
  destruct I as (I1 & I2 & I3 & I4 & I5).
  destruct Hh as [(Eh & _)|[(x & Eh & _)|(Eh & P & _ & _)]]; unfold client_seq_ok; rewrite Eh.
  - exact I1.
  - intros t0 k1 k2 h1 h2 Lt Sp Hin. apply snoc_split in Sp.
    destruct Sp as [(_ & D & _)|(h2' & _ & Sp)]; [discriminate D|].
    apply in_app_or in Hin. destruct Hin as [Hin|[D|[]]]; [|discriminate D].
    eapply I1; eauto.
  - intros t0 k1 k2 h1 h2 Lt Sp Hin. apply snoc_split in Sp.
    destruct Sp as [(_ & D & Sp)|(h2' & _ & Sp)].
    + injection D as <- <-. subst h1.
      apply in_app_or in Hin. destruct Hin as [Hin|[D|[]]]; [|injection D as D; lia].
      destruct (I3 _ _ _ Hc Hin) as [R|R]; [exact R|]. rewrite P in R. destruct R.
    + apply in_app_or in Hin. destruct Hin as [Hin|[D|[]]]; [eapply I1; eauto|].
      injection D as <- <-.
      assert (Hin : In (EInv (t, k2)) (hist s)). { rewrite Sp. apply in_or_app. right. left. reflexivity. }
      destruct (I2 _ _ Hin) as (cl & Hn & Lk). rewrite Hc in Hn. injection Hn as <-. lia.
Qed.

Lemma cl_fresh t0 k : In (EInv (t0, k)) (hist s') -> exists cl, nth_error (clients s') t0 = Some cl /\ k < c_seq cl.
Proof.
  destruct I as (I1 & I2 & I3 & I4 & I5). intros Hin. rewrite E.
  assert (Old : In (EInv (t0, k)) (hist s) -> exists cl, nth_error (upd (clients s) t c') t0 = Some cl /\ k < c_seq cl).
  { intros Hin'. destruct (I2 _ _ Hin') as (cl & Hn & Lk). destruct (Nat.eq_dec t t0) as [<-|N].
    - exists c'. rewrite upd_same by (eapply nth_error_lt; eauto). split; [reflexivity|].
      rewrite Hc in Hn. injection Hn as <-. lia.
    - exists cl. rewrite upd_other by exact N. auto. }
  destruct Hh as [(Eh & _)|[(x & Eh & _)|(Eh & _ & _ & Lt)]]; rewrite Eh in Hin; auto.
  - apply in_app_or in Hin. destruct Hin as [Hin|[D|[]]]; [auto|discriminate D].
  - apply in_app_or in Hin. destruct Hin as [Hin|[D|[]]]; [auto|]. injection D as <- <-.
    exists c'. rewrite upd_same by (eapply nth_error_lt; eauto). auto.
Qed.

Lemma cl_ret t0 cl k : nth_error (clients s') t0 = Some cl -> In (EInv (t0, k)) (hist s') ->
  In (ERet (t0, k)) (hist s') \/ In (t0, k) (pc_cids (c_pc cl)).
Proof.
  destruct I as (I1 & I2 & I3 & I4 & I5). rewrite E. intros Hn Hin.
  apply upd_nth in Hn. destruct Hn as [(<- & -> & _)|(N & Hn)].
  - destruct Hh as [(Eh & P)|[(x & Eh & P & P')|(Eh & P & P' & Lt)]]; rewrite Eh in *.
    + rewrite P. eapply I3; eauto.
    + apply in_app_or in Hin. destruct Hin as [Hin|[D|[]]]; [|discriminate D].
      left. destruct (I3 _ _ _ Hc Hin) as [R|R]; [apply in_or_app; auto|].
      rewrite P in R. destruct R as [<-|[]]. apply in_or_app. right. left. reflexivity.
    + apply in_app_or in Hin. destruct Hin as [Hin|[D|[]]].
      * destruct (I3 _ _ _ Hc Hin) as [R|R]; [left; apply in_or_app; auto|]. rewrite P in R. destruct R.
      * injection D as <-. right. rewrite P'. left. reflexivity.
  - assert (Hin' : In (EInv (t0, k)) (hist s)).
    { destruct Hh as [(Eh & _)|[(x & Eh & _)|(Eh & _)]]; rewrite Eh in Hin; auto;
        (apply in_app_or in Hin; destruct Hin as [Hin|[D|[]]]; [auto|]); [discriminate D|].
      injection D as D _. congruence. }
    destruct (I3 _ _ _ Hn Hin') as [R|R]; [left; apply hist_mono; exact R|right; exact R].
Qed.

Lemma cl_in t0 cl x : nth_error (clients s') t0 = Some cl -> In x (pc_cids (c_pc cl)) -> In (EInv x) (hist s').
Proof.
  destruct I as (I1 & I2 & I3 & I4 & I5). rewrite E. intros Hn Hx.
  apply upd_nth in Hn. destruct Hn as [(<- & -> & _)|(N & Hn)]; [|apply hist_mono; eapply I4; eauto].
  destruct Hh as [(Eh & P)|[(y & Eh & P & P')|(Eh & P & P' & Lt)]].
  - rewrite P in Hx. rewrite Eh. eapply I4; eauto.
  - rewrite P' in Hx. destruct Hx.
  - rewrite P' in Hx. destruct Hx as [<-|[]]. rewrite Eh. apply in_or_app. right. left. reflexivity.
Qed.

Lemma cl_enq x : In x (enq s') -> In (EInv x) (hist s').
Proof.
  destruct I as (I1 & I2 & I3 & I4 & I5). intros Hx. apply hist_mono.
  destruct Hq as [Eq|(y & P & Eq)]; rewrite Eq in Hx; auto.
  apply in_app_or in Hx. destruct Hx as [Hx|[<-|[]]]; auto.
  apply (I4 _ _ _ Hc). rewrite P. left. reflexivity.
Qed.

Lemma cseq_client : cseq_inv s'.
Proof.
  split; [exact cl_seq|]. split; [exact cl_fresh|]. split; [exact cl_ret|]. split; [exact cl_in|exact cl_enq].
Qed.
End ClientStep.

Lemma cseq_init (a0 : A) (progs : list (list (@op V) * nat)) : cseq_inv (Actor.init a0 progs).
Proof.
  unfold cseq_inv, client_seq_ok. cbn [Actor.init hist enq clients].
  split; [intros t k1 k2 h1 h2 _ _ []|]. split; [intros t k []|]. split; [intros t cl k _ []|].
  split; [|intros c []].
  intros t cl c Hn Hx. apply nth_error_In, in_map_iff in Hn. destruct Hn as (p & <- & _). destruct Hx.
Qed.

Ltac use_pc := try match goal with P : c_pc _ = _ |- _ => rewrite P end.
Ltac side_h :=
  first
  [ left; split; [reflexivity|use_pc; reflexivity]
  | right; left; eexists; split; [reflexivity|]; split; [use_pc; reflexivity|reflexivity]
  | right; right; split; [reflexivity|]; split; [use_pc; reflexivity|]; split; [reflexivity|lia] ].
Ltac side_q :=
  first [ left; reflexivity | right; eexists; split; [use_pc; reflexivity|reflexivity] ].

Lemma cseq_step m s ch s' : cseq_inv s -> step m s ch = Some s' -> cseq_inv s'.
Proof.
  intros I H. destruct ch as [t|]; cbn [Actor.step] in H.
  - step_cases H.
    all: match goal with Hc : nth_error (clients ?s0) ?t0 = Some ?c, I0 : cseq_inv ?s0 |- _ =>
           eapply (cseq_client s0 _ t0 c); [exact I0 | exact Hc | cbn; reflexivity | cbn; lia | cbn | cbn ] end.
    all: first [ side_h | side_q ].
  - step_cases H; (eapply cseq_ext; [ | | | exact I]; reflexivity).
Qed.

Theorem cseq_reachable m (a0 : A) progs sched : cseq_inv (run m a0 progs sched).
Proof. unfold Actor.run. apply (inv_run sem sem_slf dv cseq_inv m (cseq_step m)). apply cseq_init. Qed.

Theorem client_seq_reachable m a0 progs sched : client_seq_ok (run m a0 progs sched).
Proof. apply cseq_reachable. Qed.

(* every executed call was started *)
Lemma applied_started m a0 progs sched c : let s := run m a0 progs sched in
  In c (applied_ids s) -> In (EInv c) (hist s).
Proof.
  intros s Ha.
  destruct (Inv_reachable sem sem_slf dv m a0 progs sched) as (_ & _ & F & (P & _) & _). fold s in F, P.
  destruct (cseq_reachable m a0 progs sched) as (_ & _ & _ & _ & I5). fold s in I5.
  apply I5. unfold fifo_ok in F. rewrite F. apply in_or_app. left.
  eapply subseq_In; [exact P|]. apply in_or_app. left. exact Ha.
Qed.

(* the calls of one client are executed in program order *)
Theorem per_client_fifo m a0 progs sched : let s := run m a0 progs sched in
  forall t k1 k2, k1 < k2 -> In (t, k1) (applied_ids s) -> In (t, k2) (applied_ids s) ->
  precedes (t, k1) (t, k2) (applied_ids s).
Proof.
  intros s t k1 k2 Lt A1 A2.
  pose proof (applied_started m a0 progs sched _ A1) as S1.
  pose proof (applied_started m a0 progs sched _ A2) as S2. fold s in S1, S2.
  destruct (in_split _ _ S2) as (h1 & h2 & Sp).
  pose proof (client_seq_reachable m a0 progs sched t k1 k2 h1 h2 Lt Sp S1) as R.
  exact (realtime_order sem sem_slf dv m a0 progs sched h1 h2 (t, k1) (t, k2) Sp R A1 A2).
Qed.
End Inv.
