#!/bin/bash
# usage: goals.sh FILE LINE [extra tactic text]   -- run FILE up to LINE (inclusive) in coqtop and show the goals
cd /verif/coq
f=$1; n=$2; extra=${3:-}
(head -n $n $f; echo "$extra"; echo "Show."; ) | timeout 300 coqtop -Q theories IT -quiet 2>&1 | tail -n ${GOALS_TAIL:-60}
